"""Measures the sizes of the hand-written code blobs from the *assembled current* .S file (symbol distances via nm)
and evaluates the size constants that jit_compiler_x86.cpp defines as differences of symbol addresses
(`const int32_t prologueSize = codeLoopBegin - codePrologue;`), which are not constant expressions in C.
Both the symbol aliases and the difference expressions are parsed from the real source text on every run."""
import os, re, subprocess


class AsmSizeError(Exception):
    pass


def measure(repo, cpp_rel, asm_rel, scratch):
    obj = os.path.join(scratch, "static_asm.o")
    p = subprocess.run(["gcc", "-c", os.path.join(repo, asm_rel), "-I", os.path.join(repo, "src"), "-o", obj],
                       stdout=subprocess.PIPE, stderr=subprocess.PIPE)
    if p.returncode != 0:
        raise AsmSizeError("assembling %s failed: %s" % (asm_rel, p.stderr.decode()[-500:]))
    nm = subprocess.run(["nm", obj], stdout=subprocess.PIPE).stdout.decode()
    addr = {}
    for l in nm.splitlines():
        parts = l.split()
        if len(parts) == 3:
            addr[parts[2]] = int(parts[0], 16)
    src = open(os.path.join(repo, cpp_rel)).read()
    alias = {}
    for mo in re.finditer(r"const\s+uint8_t\s*\*\s*(\w+)\s*=\s*(?:\(uint8_t\s*\*\)\s*&\s*(\w+)|ADDR\((\w+)\))\s*;", src):
        alias[mo.group(1)] = mo.group(2) or mo.group(3)
    sizes = {}
    for mo in re.finditer(r"const\s+int32_t\s+(\w+)\s*=\s*(\w+)\s*-\s*(\w+)\s*;", src):
        name, a, b = mo.groups()
        if a in alias and b in alias:
            if alias[a] not in addr or alias[b] not in addr:
                raise AsmSizeError("symbol for %s or %s not found in assembled object" % (a, b))
            sizes[name] = addr[alias[a]] - addr[alias[b]]
    if "randomx_prefetch_scratchpad_end" in addr and "randomx_prefetch_scratchpad" in addr:
        sizes["prefetchScratchpadSize"] = addr["randomx_prefetch_scratchpad_end"] - addr["randomx_prefetch_scratchpad"]
    if len(sizes) < 10:
        raise AsmSizeError("only %d blob sizes recognised in %s" % (len(sizes), cpp_rel))
    return sizes


def header(sizes):
    out = ["/* generated on this run from the assembled src/jit_compiler_x86_static.S (nm symbol distances) */", "#include <stdint.h>"]
    for k, v in sorted(sizes.items()):
        # enum constants (type int == int32_t here): usable in other static initialisers regardless of initialisation order
        out.append("enum { %s = %d };" % (k, v))
    return "\n".join(out) + "\n"
