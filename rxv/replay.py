"""Native side: (a) replay of CBMC counterexamples against the real code, (b) native exhaustive/bounded
stand-in checks (kind == "native"), never counted as discharged proof obligations."""
import json, os, re, shutil, subprocess, sys, tempfile, time

HERE = os.path.dirname(os.path.abspath(__file__))
VERIF = os.path.dirname(HERE)
sys.path.insert(0, HERE)
import cbmc as C  # noqa

REPO = C.REPO


def build_lib(scratch, log):
    """build librandomx.a from /repo's current working tree in scratch (cmake+ninja)"""
    b = os.path.join(scratch, "libbuild")
    rc, so, se, to, dt = C.run(["cmake", "-G", "Ninja", "-S", REPO, "-B", b, "-DCMAKE_BUILD_TYPE=RelWithDebInfo"],
                               scratch, 300, 16, log=log)
    if rc != 0:
        raise C.ToolError("cmake configure failed: " + (se or so)[-1500:])
    rc, so, se, to, dt = C.run(["cmake", "--build", b, "--target", "randomx", "-j", "16"], scratch, 900, 16, log=log)
    if rc != 0:
        raise C.ToolError("library build failed: " + (se or so)[-1500:])
    return os.path.join(b, "librandomx.a")


def build_native(spec, suite_dir, scratch, log, extra_defs=()):
    exe = os.path.join(scratch, "native_" + re.sub(r"\W", "_", spec["prog"]))
    objs = []
    inc = ["-I", os.path.join(REPO, "src"), "-I", suite_dir, "-I", os.path.join(VERIF, "stubs"), "-I", scratch]
    flags = spec.get("flags", ["-O2"])
    srcs = spec.get("sources", [])
    lib = []
    if srcs == "lib":
        lib = [build_lib(scratch, log), "-lpthread"]
        srcs = []
    for s in srcs:
        sp = os.path.join(VERIF, "suites", s[8:]) if s.startswith("@suites/") else os.path.join(REPO, s)
        o = os.path.join(scratch, "n_" + re.sub(r"\W", "_", s) + ".o")
        cc = "gcc" if s.endswith((".c", ".S")) else "g++"
        cmd = [cc] + (["-std=c++11"] if cc == "g++" else []) + flags + inc + ["-c", sp, "-o", o]
        rc, so, se, to, dt = C.run(cmd, scratch, 300, 8, log=log)
        if rc != 0:
            raise C.ToolError("native compile of %s failed: %s" % (s, (se or so)[-1500:]))
        objs.append(o)
    prog = spec["prog"]
    prog = os.path.join(VERIF, "suites", prog[8:]) if prog.startswith("@suites/") else os.path.join(suite_dir, prog)
    cc = "gcc" if prog.endswith(".c") else "g++"
    cmd = [cc] + (["-std=c++11"] if cc == "g++" else []) + flags + inc + ["-D" + d for d in extra_defs] + \
          ["-D" + d for d in spec.get("defines", [])] + [prog] + objs + lib + ["-lpthread", "-lm", "-o", exe]
    rc, so, se, to, dt = C.run(cmd, scratch, 300, 8, log=log)
    if rc != 0:
        raise C.ToolError("native build of %s failed: %s" % (spec["prog"], (se or so)[-1500:]))
    return exe


def run_native(ob, pid, suite_dir, scratch, log):
    """kind == native obligation: exit 0 ok, exit 1 + 'FAIL ...' lines = violation, else undecided"""
    spec = ob["native"]
    exe = build_native(spec, suite_dir, scratch, log)
    tier = os.environ.get("VERIF_TIER", "quick")
    args = [a.replace("{seed}", os.environ.get("VERIF_SEED", "0") or "0") for a in spec.get("args", [])]
    rc, so, se, to, dt = C.run([exe] + args, scratch, ob.get("timeout", 1800), 8, log=log)
    res = {"seconds": round(dt, 2), "native_output": so[-2000:]}
    m = re.search(r"CASES (\d+)", so)
    res["cases"] = int(m.group(1)) if m else 0
    if to:
        res["why"] = "native run timed out"
    elif rc == 0 and res["cases"] > 0:
        res["status"] = "ok"
    elif rc == 1:
        res["status"] = "violation"
        fl = [l for l in so.splitlines() if l.startswith("FAIL")][:5]
        res["failed"] = [{"property": ob["name"] + ".native", "description": "; ".join(fl) or "native check failed"}]
        res["native_reproduced"] = True
    else:
        res["why"] = "native check error rc=%s %s" % (rc, (se or so)[-500:])
    return res


def _args_from_cex(spec, cex):
    args = []
    roots = spec.get("vars")
    skip = spec.get("skip")
    for k, v in (cex or {}).items():
        root = re.split(r"[.\[]", k)[0]
        if skip and re.search(skip, k):
            continue
        if k.startswith("return_value_"):
            continue
        if roots is None or root in roots:
            args.append("%s=%d" % (re.sub(r"\.\$anon\d+", "", k), v))
    return args


def make_replay(r, ob, pid, suite_dir):
    """write the replay file for a failed obligation; returns (path, reproduced)"""
    path = os.path.join(VERIF, "out", "replay", "%s_%s.json" % (pid, re.sub(r"\W", "_", r["name"])))
    doc = {"property": pid, "obligation": r["name"], "failed": r.get("failed", []),
           "enforced_function": r.get("enforce"), "backend": r.get("backend"),
           "counterexample": dict(list((r.get("cex") or {}).items())[:300]) if r.get("cex") else None,
           "verifier_output": r.get("cbmc_tail"), "commands": r.get("log"),
           "reproduced": False}
    reproduced = False
    if r.get("native_reproduced"):
        reproduced = True
        doc["native_output"] = r.get("native_output")
    spec = ob.get("replay")
    # no_args: the replay program searches a fixed adversarial family itself (used where the verifier's counterexample is a
    # havocked loop-invariant state rather than an input)
    if spec and (r.get("cex") or spec.get("no_args")):
        scratch = tempfile.mkdtemp(prefix="rxv.replay.")
        log = []
        try:
            exe = build_native(spec, suite_dir, scratch, log)
            args = [] if spec.get("no_args") else _args_from_cex(spec, r["cex"])
            rc, so, se, to, dt = C.run([exe] + args, scratch, 600, spec.get("mem_gb", 8), log=log)
            doc["replay_args"] = args
            doc["replay_prog"] = spec["prog"]
            doc["native_output"] = (so + se)[-3000:]
            doc["native_rc"] = rc
            reproduced = (rc == 1)
        except Exception as e:
            doc["replay_error"] = str(e)[-1500:]
        finally:
            shutil.rmtree(scratch, ignore_errors=True)
    doc["reproduced"] = reproduced
    if not reproduced:
        doc["note"] = "no-failing-input-found: the obligation named above failed in the verifier; see verifier_output"
    json.dump(doc, open(path, "w"), indent=1, default=str)
    return path, reproduced


def replay_file(path, pid, suite, suite_dir):
    doc = json.load(open(path))
    ob = [o for o in suite.OBLIGATIONS if o["name"] == doc["obligation"]]
    if not ob:
        print("unknown obligation", doc["obligation"])
        return 2
    ob = ob[0]
    print("obligation:", doc["obligation"])
    for f in doc.get("failed", []):
        print("  failed:", f.get("property"), "::", f.get("description"))
    spec = ob.get("replay")
    if ob.get("kind") == "native":
        spec = None
    if not spec or (not doc.get("replay_args") and not spec.get("no_args")):
        print("no native replay recorded for this obligation (no-failing-input-found); verifier output:")
        print(json.dumps(doc.get("verifier_output"), indent=1))
        return 1 if doc.get("failed") else 0
    scratch = tempfile.mkdtemp(prefix="rxv.replay.")
    try:
        exe = build_native(spec, suite_dir, scratch, [])
        rc, so, se, to, dt = C.run([exe] + (doc.get("replay_args") or []), scratch, 600, spec.get("mem_gb", 8))
        print(so + se)
        print("replay rc=%d (%s)" % (rc, "REPRODUCED" if rc == 1 else "not reproduced"))
        return 1 if rc == 1 else 0
    finally:
        shutil.rmtree(scratch, ignore_errors=True)
