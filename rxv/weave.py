"""Loop-contract weaver: insert-only.  Given the text of a C file (real /repo text or extractor output),
inserts loop-contract clauses after the header of the k-th loop of a named function.  Nothing is deleted
or rewritten.  If the function, or its expected number of loops, is not found -> WeaveError (exit 2 upstream)."""
import re


class WeaveError(Exception):
    pass


def _mask(text):
    """same-length copy with comments, string/char literals and preprocessor lines blanked"""
    out = list(text)
    i, n = 0, len(text)
    bol = True
    while i < n:
        c = text[i]
        if bol and c in " \t":
            i += 1
            continue
        if bol and c == "#":
            # preprocessor line with continuations
            j = i
            while j < n:
                k = text.find("\n", j)
                if k < 0:
                    k = n
                    break
                if text[k - 1] == "\\":
                    j = k + 1
                    continue
                break
            for t in range(i, k):
                if out[t] != "\n":
                    out[t] = " "
            i = k
            continue
        bol = False
        if c == "\n":
            bol = True
            i += 1
        elif text.startswith("//", i):
            k = text.find("\n", i)
            k = n if k < 0 else k
            for t in range(i, k):
                out[t] = " "
            i = k
        elif text.startswith("/*", i):
            k = text.find("*/", i + 2)
            k = n if k < 0 else k + 2
            for t in range(i, k):
                if out[t] != "\n":
                    out[t] = " "
            i = k
        elif c in "\"'":
            k = i + 1
            while k < n and text[k] != c:
                k += 2 if text[k] == "\\" else 1
            for t in range(i + 1, min(k, n)):
                out[t] = " "
            i = k + 1
        else:
            i += 1
    return "".join(out)


def match(m, i, open_c, close_c):
    """m[i] == open_c; returns index of matching close"""
    depth = 0
    for j in range(i, len(m)):
        if m[j] == open_c:
            depth += 1
        elif m[j] == close_c:
            depth -= 1
            if depth == 0:
                return j
    raise WeaveError("unbalanced %s" % open_c)


def find_function(text, name, masked=None):
    """returns (header_start, body_open, body_close) of the definition of `name`"""
    m = masked or _mask(text)
    for mo in re.finditer(r"(?<![\w:.>])" + re.escape(name) + r"\s*\(", m):
        p = m.index("(", mo.start())
        q = match(m, p, "(", ")")
        # skip qualifiers / contract clauses between ')' and '{'
        k = q + 1
        while True:
            mm = re.match(r"\s*(const|noexcept|override|__CPROVER_\w+\s*\()", m[k:])
            if not mm:
                break
            if mm.group(1).startswith("__CPROVER"):
                pp = k + mm.end() - 1
                k = match(m, pp, "(", ")") + 1
            else:
                k += mm.end()
        mm = re.match(r"\s*\{", m[k:])
        if not mm:
            continue
        bo = k + mm.end() - 1
        bc = match(m, bo, "{", "}")
        # header start: back to previous ';' or '}' or start
        hs = max(m.rfind(";", 0, mo.start()), m.rfind("}", 0, mo.start()), m.rfind("{", 0, mo.start())) + 1
        return hs, bo, bc
    raise WeaveError("function %s not found" % name)


def loops_in(text, bo, bc, masked=None):
    """list of (kind, insert_pos) for each loop in body, in source order.
    for/while: insert_pos is just after the ')' of the header.
    do-while: insert_pos is just after the `do` keyword (where CBMC's grammar takes the clauses)."""
    m = masked or _mask(text)
    res = []
    do_stack = []
    i = bo
    pat = re.compile(r"\b(for|while|do)\b")
    pos = bo
    pending_do_ends = {}
    for mo in pat.finditer(m, bo, bc):
        kw = mo.group(1)
        if kw == "do":
            # find body extent
            k = mo.end()
            mm = re.match(r"\s*\{", m[k:])
            if not mm:
                raise WeaveError("do without block")
            o = k + mm.end() - 1
            c = match(m, o, "{", "}")
            pending_do_ends[c] = len(res)
            res.append(["do", mo.end(), mo.start()])     # CBMC takes the contract clauses of a do-while right after `do`
        else:
            p = m.index("(", mo.end() - 0)
            q = match(m, p, "(", ")")
            if kw == "while":
                # is this the tail of a do-while?
                prev = m[:mo.start()].rstrip()
                if prev.endswith("}") and (len(prev) - 1) in pending_do_ends:
                    pending_do_ends.pop(len(prev) - 1)
                    continue
            res.append([kw, q + 1, mo.start()])
    return [(k, p) for k, p, s in sorted(res, key=lambda r: r[2])]


def weave(text, spec):
    """spec: list of {"function": name, "expect_loops": n, "loops": {"k": "clauses"}}"""
    inserts = []
    m = _mask(text)
    fired = []
    for fs in spec:
        hs, bo, bc = find_function(text, fs["function"], m)
        ls = loops_in(text, bo, bc, m)
        if "expect_loops" in fs and len(ls) != fs["expect_loops"]:
            raise WeaveError("function %s has %d loops, expected %d" % (fs["function"], len(ls), fs["expect_loops"]))
        for k, clauses in fs["loops"].items():
            k = int(k)
            if k >= len(ls):
                raise WeaveError("function %s has no loop %d" % (fs["function"], k))
            inserts.append((ls[k][1], "\n" + clauses + "\n"))
            fired.append("%s.loop%d" % (fs["function"], k))
    for pos, s in sorted(inserts, reverse=True):
        text = text[:pos] + s + text[pos:]
    return text, fired
