"""Mechanical C++ -> C extraction of /repo functions (run on every check).

Pipeline (DESIGN 3.2):
  1. gcc -E -x c on the real file (empty stand-ins for C++ std headers, portable defines): the real
     preprocessor resolves conditional compilation and macros; line markers keep /repo line numbers.
  2. split the stream into top-level items (descending into namespaces / extern "C"), each attributed
     to its origin file by the line markers.  Items from C headers and system headers pass verbatim.
  3. items from C++ files are classified (constexpr, using, enum class, class/struct, function,
     variable, ...) and rewritten by the fixed rule list below; functions are kept only if selected by
     the obligation's spec, everything dropped is recorded.
  4. residue check: C++ tokens left in kept code -> ExtractError (exit 2 upstream, never a violation).

What extraction changes is exactly this rule list (reported as `fired` counts in the evidence):
  constexpr->enum/#define-free const, using->typedef, enum class->enum+prefix, class->struct (+flattened bases),
  member function -> Class_f(self,...), reference -> pointer, auto -> __typeof__, casts, template
  parameters -> macros, std::swap -> macro, throw -> RXV_THROW, UNREACHABLE -> assertion (via -D).
"""
import fnmatch, os, re, subprocess

HERE = os.path.dirname(os.path.abspath(__file__))
VERIF = os.path.dirname(HERE)


class ExtractError(Exception):
    pass


CXX_EXT = (".hpp", ".cpp", ".cc", ".hh")
CXX_HEADERS_BY_NAME = ("intrin_portable.h", "soft_aes.h")

PRELUDE = r"""
/* ---- rxv extraction prelude ---- */
#include <stdbool.h>
#include <stdint.h>
#include <stddef.h>
#include <string.h>
#include <stdlib.h>
#include <limits.h>
#include <math.h>
#include <fenv.h>
#include <float.h>
#include <assert.h>
#ifndef NULL
#define NULL ((void*)0)
#endif
/* stand-ins for C++ library types that occur as fields (their operations are rewritten per suite or stubbed) */
typedef struct rxv_vector { void* data; size_t size; } rxv_vector;
/* stand-in for a vector of int with at most 8 elements (candidate register lists of the SuperscalarHash generator); overflow is an error */
typedef struct rxv_ivec8 { int item[8]; size_t size; } rxv_ivec8;
static inline void rxv_ivec8_push(rxv_ivec8* v, int x) { __CPROVER_assert(v->size < 8, "rxv_ivec8 capacity"); v->item[v->size] = x; v->size++; }
static inline void rxv_ivec8_clear(rxv_ivec8* v) { v->size = 0; }
static inline size_t rxv_ivec8_size(const rxv_ivec8* v) { return v->size; }
static inline int rxv_ivec8_at(const rxv_ivec8* v, size_t i) { __CPROVER_assert(i < v->size, "rxv_ivec8 index in range"); return v->item[i]; }
/* stand-in for a vector of uint64_t that is only indexed (reciprocal cache): base pointer + element count */
typedef struct rxv_u64vec { const uint64_t* data; size_t size; } rxv_u64vec;
static inline uint64_t rxv_u64vec_at(const rxv_u64vec* v, size_t i) { __CPROVER_assert(i < v->size, "rxv_u64vec index in range"); return v->data[i]; }
typedef struct rxv_string { const char* data; size_t size; unsigned long long id; /* abstract identity of the byte string: equal ids <=> equal strings */ } rxv_string;
#define rxv_string_eq(a, b) ((a)->id == (b)->id)
/* TRUSTED abstraction of the C++ standard string (suites using it say so): the identity of a byte string is an uninterpreted function of
   where it was taken from and its length.  assign(p, n) takes the identity of the n bytes at p.  compare(pos, len, p, n) is
   exact when it compares the whole stored string (pos == 0, len >= size): 0 iff same identity; when it looks at a proper
   part of the stored string its result is unknown (any value) - a caller that relies on it for equality is then refuted. */
unsigned long long __CPROVER_uninterpreted_rxv_key_id(const char*, size_t);
int nondet_int(void);
static inline void rxv_string_assign(rxv_string* s, const char* p, size_t n) { s->data = p; s->size = n; s->id = __CPROVER_uninterpreted_rxv_key_id(p, n); }
static inline int rxv_string_compare(const rxv_string* s, size_t pos, size_t len, const char* p, size_t n) {
	if (pos == 0 && len >= s->size) return s->id == __CPROVER_uninterpreted_rxv_key_id(p, n) ? 0 : 1;
	return nondet_int();
}
static inline int rxv_string_compare_str(const rxv_string* s, size_t pos, size_t len, const rxv_string* b) { return rxv_string_compare(s, pos, len, b->data, b->size); }
/* observers of the abstract string: the representation invariant is id == key_id(data, size) */
static inline size_t rxv_string_size(const rxv_string* s) { return s->size; }
static inline size_t rxv_string_length(const rxv_string* s) { return s->size; }
static inline const char* rxv_string_data(const rxv_string* s) { return s->data; }
static inline const char* rxv_string_c_str(const rxv_string* s) { return s->data; }
#define RXV_SWAP(a, b) do { __typeof__(a) rxv_tmp_ = (a); (a) = (b); (b) = rxv_tmp_; } while (0)
#define RXV_MAX(a, b) ((a) > (b) ? (a) : (b))
#define RXV_MIN(a, b) ((a) < (b) ? (a) : (b))
extern int rxv_exc;   /* exception-flow model (recipes with "exceptions"): set by stubs that stand for a throwing call */
#ifndef RXV_CAUGHT
#define RXV_CAUGHT 0   /* with the default RXV_THROW (path ends) a handler is never entered */
#endif
#ifndef RXV_THROW
/* ASSUME: an exceptional exit ends the path (properties are stated for normal returns) */
#define RXV_THROW(what) do { __CPROVER_assume(0); } while (0)
#endif
/* ---- end prelude ---- */
"""


# ---------------------------------------------------------------------------------------------
# text utilities
# ---------------------------------------------------------------------------------------------

def mask_strings(text):
    """same-length copy with string/char literal contents blanked (no comments after cpp)"""
    out = list(text)
    i, n = 0, len(text)
    while i < n:
        c = text[i]
        if c == '"' or c == "'":
            k = i + 1
            while k < n and text[k] != c:
                k += 2 if text[k] == "\\" else 1
            for t in range(i + 1, min(k, n)):
                if out[t] != "\n":
                    out[t] = " "
            i = k + 1
        else:
            i += 1
    return "".join(out)


def match_fwd(m, i, o, c):
    d = 0
    for j in range(i, len(m)):
        if m[j] == o:
            d += 1
        elif m[j] == c:
            d -= 1
            if d == 0:
                return j
    raise ExtractError("unbalanced %s at %d: %r" % (o, i, m[i:i + 60]))


def match_back(m, i, o, c):
    """m[i] == c (closing); return index of matching opening o"""
    d = 0
    for j in range(i, -1, -1):
        if m[j] == c:
            d += 1
        elif m[j] == o:
            d -= 1
            if d == 0:
                return j
    raise ExtractError("unbalanced %s (backwards)" % c)


def split_top(s, sep=","):
    """split at top-level separators (depth over (), [], {}, <> not tracked for <>)"""
    m = mask_strings(s)
    parts, d, last = [], 0, 0
    for i, ch in enumerate(m):
        if ch in "([{":
            d += 1
        elif ch in ")]}":
            d -= 1
        elif ch == sep and d == 0:
            parts.append(s[last:i])
            last = i + 1
    parts.append(s[last:])
    return parts


def split_top_angle(s):
    parts, d, last = [], 0, 0
    for i, ch in enumerate(s):
        if ch in "<([":
            d += 1
        elif ch in ">)]":
            d -= 1
        elif ch == "," and d == 0:
            parts.append(s[last:i])
            last = i + 1
    parts.append(s[last:])
    return parts


# ---------------------------------------------------------------------------------------------
# step 1: preprocessing
# ---------------------------------------------------------------------------------------------

PORTABLE_UNDEFS = ["__SSE2__", "__SSE__", "__AES__", "__SSE3__", "__SSSE3__", "__SSE4_1__", "__AVX__", "__AVX2__",
                   "__SIZEOF_INT128__"]


def preprocess(path, repo, defines, undefs, extra_inc=()):
    cmd = ["gcc", "-E", "-x", "c", "-std=gnu11", "-I", os.path.join(VERIF, "stubs", "cxxstd")]
    for i in extra_inc:
        cmd += ["-I", i]
    cmd += ["-I", os.path.join(repo, "src")]
    for u in undefs:
        cmd.append("-U" + u)
    for d in defines:
        cmd.append("-D" + d)
    cmd.append(path)
    p = subprocess.run(cmd, stdout=subprocess.PIPE, stderr=subprocess.PIPE)
    if p.returncode != 0:
        raise ExtractError("preprocessing failed: " + p.stderr.decode()[-1500:])
    return p.stdout.decode()


# ---------------------------------------------------------------------------------------------
# step 2: items
# ---------------------------------------------------------------------------------------------

class Item:
    def __init__(self, file, line, text):
        self.file, self.line, self.text = file, line, text

    def __repr__(self):
        return "<%s:%s %r>" % (os.path.basename(self.file), self.line, self.text[:50])


LM = re.compile(r'^#\s*(\d+)\s+"([^"]*)"[^\n]*$', re.M)


def strip_linemarkers(text):
    """returns (clean text, list of (offset_in_clean, file, line))"""
    out, marks, pos = [], [], 0
    clean_len = 0
    for mo in LM.finditer(text):
        seg = text[pos:mo.start()]
        out.append(seg)
        clean_len += len(seg)
        marks.append((clean_len, mo.group(2), int(mo.group(1))))
        pos = mo.end() + 1
    out.append(text[pos:])
    return "".join(out), marks


def locate(marks, clean, off):
    """file/line of clean offset"""
    lo, hi = 0, len(marks) - 1
    best = None
    while lo <= hi:
        mid = (lo + hi) // 2
        if marks[mid][0] <= off:
            best = mid
            lo = mid + 1
        else:
            hi = mid - 1
    if best is None:
        return "<unknown>", 0
    o, f, l = marks[best]
    return f, l + clean.count("\n", o, off)


TYPE_HEAD = re.compile(r"\b(struct|class|union|enum)\b[^;(){}=]*$")


def split_items(clean, marks, base=0, text=None, m=None):
    """top-level items of clean[base:...] (text given for recursion)"""
    if text is None:
        text = clean
        m = mask_strings(clean)
    items = []
    i, n = 0, len(text)
    start = None
    while i < n:
        ch = m[i]
        if start is None:
            if ch.isspace() or ch == ";":
                i += 1
                continue
            start = i
        if ch == ";":
            items.append((start, i + 1))
            start = None
            i += 1
        elif ch == "(" or ch == "[":
            i = match_fwd(m, i, ch, ")" if ch == "(" else "]") + 1
        elif ch == "{":
            head = m[start:i]
            close = match_fwd(m, i, "{", "}")
            if re.match(r"\s*(inline\s+)?namespace\b[^;{}()]*$", head) or re.match(r'\s*extern\s*"\s*"\s*$', head):
                # descend
                inner_items = split_items(clean, marks, base + i + 1, text[i + 1:close], m[i + 1:close])
                items.append(("ns", head.strip(), inner_items))
                start = None
                i = close + 1
            elif TYPE_HEAD.search(head) or re.search(r"=\s*$", head):
                # type definition or initializer: continues to ';'
                i = close + 1
            else:
                # function body
                items.append((start, close + 1))
                start = None
                i = close + 1
        else:
            i += 1
    res = []
    for it in items:
        if it[0] == "ns":
            res.extend(it[2])
        else:
            s, e = it
            f, l = locate(marks, clean, base + s)
            res.append(Item(f, l, text[s:e]))
    return res


# ---------------------------------------------------------------------------------------------
# step 3: translation
# ---------------------------------------------------------------------------------------------

INT_TYPES = r"(?:int|unsigned|unsigned int|bool|int32_t)"


class Func:
    def __init__(self):
        self.cls = None       # owning class or None
        self.name = None
        self.cname = None
        self.ret = None
        self.params = []      # list of dict(type, name, ref, arrayref, text)
        self.static = False
        self.body = None
        self.item = None
        self.tmpl = None
        self.const = False
        self.init_list = None
        self.is_decl = False


class Cls:
    def __init__(self, name):
        self.name = name
        self.bases = []
        self.fields = []       # list of (text, names)
        self.field_names = []
        self.methods = {}      # name -> Func (declared or defined)
        self.statics = {}      # static data member name -> decl text
        self.item = None
        self.pre = []          # typedefs hoisted


class Translator:
    def __init__(self, spec, repo):
        self.spec = spec
        self.repo = repo
        self.fired = {}
        self.enum_classes = set()
        self.classes = {}
        self.funcs = []            # all function definitions found (Func)
        self.template_funcs = set()
        self.template_classes = set()
        self.alias = dict(spec.get("class_alias", {}))   # class -> concrete struct name
        if spec.get("flatten"):
            for cn in spec["flatten"]["chain"]:
                self.alias[cn] = spec["flatten"]["root"]
        self.keep = spec.get("keep", [])
        self.drop_log = []
        self.ref_sigs = {}         # cname -> list of bool (param is ref)
        self.out_types = []
        self.out_funcs = []
        self.protos = []
        self.method_owner = dict(spec.get("method_owner", {}))
        self.virtual = dict(spec.get("virtual", {}))
        self.renames = dict(spec.get("rename_calls", {}))
        self.dropped_types = set()
        self.array_alias = {}
        self.memfn_types = set()
        self.type_alias = {}
        self.template_alias = {}

    def fire(self, rule, n=1):
        if n:
            self.fired[rule] = self.fired.get(rule, 0) + n

    # ----------------------------------------------------------------------------------
    def is_cxx_file(self, f):
        b = os.path.basename(f)
        return f.startswith(self.repo) and (b.endswith(CXX_EXT) or b in CXX_HEADERS_BY_NAME)

    def wanted(self, qualname):
        return any(fnmatch.fnmatchcase(qualname, p) for p in self.keep)

    # ----------------------------------------------------------------------------------
    def run(self, items):
        # pass 1: discover classes, enum classes, templates, functions
        units = []
        for it in items:
            if not it.file.startswith(self.repo):
                # system header content: replaced by #include lines of the standard C headers (prelude)
                self.fire("system header item replaced by #include")
                continue
            if not self.is_cxx_file(it.file):
                units.append(("verbatim", it, None))
                continue
            kind, data = self.classify(it)
            units.append((kind, it, data))
        # method owner table
        for c in self.classes.values():
            for mname in c.methods:
                self.method_owner.setdefault(mname, c.name)
        # out-of-class definitions inherit static/virtual from the in-class declaration
        for f in self.funcs:
            if f.cls and f.cls in self.classes and not getattr(f, "inline_in_class", False):
                d = self.classes[f.cls].methods.get(f.name)
                if d is not None and d is not f:
                    f.static = f.static or d.static
                    if d.body is None:
                        self.classes[f.cls].methods[f.name] = f
        self.ref_returning = set()
        for f in self.funcs:
            if f.ret and f.ret.rstrip().endswith("&"):
                self.ref_returning.add(f.cname)
        # which functions are kept
        kept = []
        for f in self.funcs:
            q = (f.cls + "::" if f.cls else "") + f.name
            is_constexpr = f.item is not None and re.match(r"\s*(static\s+|inline\s+)*constexpr\b", f.item.text) is not None
            if f.body is not None and getattr(f, "inline_in_class", False) and f.tmpl is not None:
                self.fire("member function template dropped (its uses are rewritten by the recipe)")
                continue
            if f.body is not None and (self.wanted(q) or (is_constexpr and not f.cls)):
                if is_constexpr and not self.wanted(q):
                    self.fire("constexpr function kept (used by constant definitions)")
                kept.append(f)
        # prefer out-of-class definitions when duplicated
        seen = {}
        for f in kept:
            q = (f.cls, f.name, len(f.params))
            seen.setdefault(q, []).append(f)
        self.kept = [fs[-1] for fs in seen.values()]
        for f in self.kept:
            self.ref_sigs[f.cname] = [p["ref"] and not p["arrayref"] for p in f.params]
        # declared-only methods/functions with ref params also matter at call sites
        for f in self.funcs:
            if f.cname not in self.ref_sigs:
                self.ref_sigs[f.cname] = [p["ref"] and not p["arrayref"] for p in f.params]
        # pass 2: emit
        out = [PRELUDE + "".join("#include <%s>\n" % h for h in self.spec.get("sys_includes", []))]
        body_part = []
        last_file = None
        for kind, it, data in units:
            lm = '\n# %d "%s"\n' % (it.line, it.file)
            if kind == "verbatim":
                out.append(lm + it.text)
            elif kind == "drop":
                self.drop_log.append(data)
            elif kind == "text":
                out.append(lm + data)
            elif kind == "class":
                out.append(lm + self.emit_class(data))
            elif kind == "func":
                f = data
                if f in self.kept:
                    proto, definition = self.emit_func(f)
                    out.append(lm + proto + ";")
                    body_part.append(lm + definition)
                else:
                    self.drop_log.append("function %s%s (not selected)" % ((f.cls + "::") if f.cls else "", f.name))
            elif kind == "methods":
                # class handled; its inline methods come via self.kept
                pass
        # inline methods of classes that are kept
        for f in self.kept:
            if f.item is None:
                continue
        text = "\n".join(out)
        # objects with per-thread storage among the emitted file-scope variables: frame contracts that speak about what one
        # thread may touch append them to their assigns clause (RXV_THREAD_LOCAL_TARGETS starts with a comma when non-empty)
        tls = re.findall(r"^[^\n;{}]*\b__thread\b[^\n;(){}=]*?\b(\w+)\s*(?:=[^;]*)?;", text, flags=re.M)
        text += "\n#define RXV_THREAD_LOCAL_TARGETS %s\n" % "".join(", " + n for n in tls)
        if tls:
            self.fire("thread-local file-scope objects listed for frame contracts", len(tls))
        text += "\n\n#ifdef RXV_CONTRACTS_H\n#include RXV_CONTRACTS_H\n#endif\n\n"
        # inline class methods kept: emit prototypes + bodies now
        for f in self.kept:
            if getattr(f, "inline_in_class", False):
                proto, definition = self.emit_func(f)
                text = text.replace("\n\n#ifdef RXV_CONTRACTS_H", "\n" + proto + ";\n\n#ifdef RXV_CONTRACTS_H", 1)
                body_part.append('\n# %d "%s"\n' % (f.line, f.file) + definition)
        text += "\n".join(body_part) + "\n"
        self.residue_check(text)
        return text

    # ----------------------------------------------------------------------------------
    def classify(self, it):
        t = it.text.strip()
        if re.match(r'extern\s*"C"\s*(?!\{)', t):
            t = re.sub(r'^extern\s*"C"\s*', "extern ", t)
            self.fire('extern "C" linkage specifier removed')
        m = mask_strings(t)
        if re.match(r"static_assert\s*\(", m):
            self.fire("static_assert dropped")
            return "drop", "static_assert"
        if re.match(r"template\s*<[^;{]*>\s*(class|struct)\s+[\w:<>, ]+;$", m) or re.match(r"template\s+(?!<)", m):
            self.fire("explicit template instantiation dropped")
            return "drop", "template instantiation"
        mo = re.match(r"(?:static\s+)?constexpr\s+(.*?)\s*\b(\w+)\s*=\s*(.*);$", t, re.S)
        if mo and "(" not in mo.group(1):
            ty, name, expr = mo.group(1).strip(), mo.group(2), mo.group(3)
            self.fire("constexpr object")
            expr = self.expr_fix(expr)
            if re.fullmatch(INT_TYPES, ty):
                return "text", "enum { %s = (%s) };" % (name, expr)
            return "text", "#define %s ((%s)(%s))\n" % (name, ty, expr.replace("\n", " "))
        mo = re.match(r"using\s+(\w+)\s*=\s*(.*);$", t, re.S)
        if mo:
            name, target = mo.group(1), mo.group(2).strip()
            am = re.match(r"std::array\s*<\s*(\w+)\s*,\s*([^>]+)>\s*$", target)
            if am:
                self.array_alias[name] = (am.group(1), am.group(2).strip())
                self.fire("using std::array alias -> C array at use")
                return "drop", "using %s (array alias, expanded at use)" % name
            mp = re.match(r"(.*?)\(\s*(\w+)\s*::\s*\*\s*\)\s*\((.*)\)\s*(const)?$", target, re.S)
            if mp and "std::" not in target:
                params = ", ".join(p["ctext"] for p in self.parse_params(mp.group(3)))
                self.fire("member-function-pointer alias -> function pointer with explicit self")
                self.memfn_types.add(name)
                return "text", "struct %s;\ntypedef %s (*%s)(struct %s* self%s);" % (mp.group(2), mp.group(1).strip(), name, mp.group(2), (", " + params) if params else "")
            ta = re.match(r"(\w+)\s*<(.*)>\s*$", target, re.S)
            if ta and "std::" not in target:
                args = []
                for a in split_top_angle(ta.group(2)):
                    a = a.strip()
                    a = {"true": "1", "false": "0"}.get(a, a)
                    if not re.fullmatch(r"-?\d+", a):
                        a = "RXV_T_" + re.sub(r"<.*>", "", a).strip()
                    args.append(a)
                self.template_alias[name] = (ta.group(1), args)
                self.fire("alias of template instantiation recorded")
                return "drop", "using %s (template instantiation; used by `new`)" % name
            if "std::" in target or "<" in target or "::*" in target:
                self.fire("using alias dropped (std/template)")
                self.dropped_types.add(name)
                return "drop", "using %s" % name
            self.fire("using->typedef")
            self.type_alias[name] = target.split()[-1] if target.split() else target
            if target in self.classes or target in self.alias:
                target = "struct " + self.alias.get(target, target)
            return "text", "typedef %s %s;" % (target, name)
        mo = re.match(r"(class|struct)\s+(\w+)\s*;$", t)
        if mo:
            self.fire("forward class decl")
            n = mo.group(2)
            sn = self.alias.get(n, n)
            return "text", "struct %s; typedef struct %s %s;" % (sn, sn, n)
        mo = re.match(r"enum\s+class\s+(\w+)\s*(?::\s*([\w ]+))?\s*\{(.*)\}\s*;$", t, re.S)
        if mo:
            name, ty, body = mo.group(1), (mo.group(2) or "int").strip(), mo.group(3)
            self.enum_classes.add(name)
            self.fire("enum class")
            ents = []
            for e in split_top(body):
                e = e.strip()
                if e:
                    ents.append(name + "_" + e)
            return "text", "typedef %s %s;\nenum { %s };" % (ty, name, ", ".join(ents))
        if re.match(r"typedef\b", m):
            if "::*" in m or "std::" in m:
                self.fire("typedef dropped (member pointer/std)")
                nm = re.search(r"\(\s*(?:\w+\s*::\s*)*\*?\s*(\w+)\s*\)", m) or re.search(r"(\w+)\s*;$", m)
                if nm:
                    self.dropped_types.add(nm.group(1))
                return "drop", "typedef " + t[:60]
            t2, k = re.subn(r"(\w)\s*&\s*(?=\w*\s*[,)])", r"\1* ", t)
            self.fire("reference in typedef -> pointer", k)
            return "text", self.decl_fix(t2)
        # class / struct definition
        mo = re.match(r"(?:template\s*<([^>]*)>\s*)?(class|struct)\s+(\w+)\s*(?:final\s*)?(?::\s*([^{]*))?\{", m, re.S)
        if mo and m.rstrip().endswith(";"):
            return self.parse_class(it, t, m, mo)
        if re.match(r"(union|struct|enum)\b", m) and "{" in m and not re.search(r"\)\s*(const\s*)?\{", m.split("{")[0] + "{"):
            um = re.match(r"(union)\s+(\w+)\s*\{", m)
            if um:
                self.fire("named union: typedef added")
                return "text", self.decl_fix(t) + "\ntypedef union %s %s;" % (um.group(2), um.group(2))
            return "text", self.decl_fix(t)
        # function definition or declaration; Class<Args>::member -> Class::member first
        t_n = re.sub(r"\b(\w+)\s*<[^<>;{}()]*(?:<[^<>]*>[^<>;{}()]*)?>\s*::", r"\1::", t)
        if t_n != t:
            self.fire("template argument list dropped in qualified name")
            t, m = t_n, mask_strings(t_n)
        f = self.parse_func(it, t, m, None)
        if f is not None:
            if f.body is None:
                # declaration only: keep if C-clean, else drop
                self.funcs.append(f)
                if re.search(r"&|::|\btemplate\b|\boperator\b", m) or f.tmpl:
                    self.fire("C++ declaration dropped")
                    return "drop", "decl " + f.name
                return "text", self.decl_fix(t)
            self.funcs.append(f)
            return "func", f
        # variable definition
        for pat in self.spec.get("drop_vars", []):
            if re.search(pat, m):
                self.fire("variable dropped by recipe")
                return "drop", "var " + t[:60]
        if any(re.search(r"\b%s\b" % re.escape(d), m.split("=")[0]) for d in self.dropped_types):
            self.fire("variable of dropped type omitted")
            return "drop", "var " + t[:60]
        return "text", self.var_fix(t)

    # ----------------------------------------------------------------------------------
    def std_types(self, t):
        t2 = t
        for elem, standin in self.spec.get("vector_as", {}).items():     # recipe: std::vector<elem> -> a typed stand-in
            t2 = re.sub(r"\bstd::vector\s*<\s*%s\s*>" % re.escape(elem), standin, t2)
        t2 = re.sub(r"\bstd::vector\s*<[^<>]*>", "rxv_vector", t2)
        t2 = re.sub(r"\bstd::string\b", "rxv_string", t2)
        if t2 != t:
            self.fire("std::vector/std::string -> stand-in struct")
        for name, (ty, n) in self.array_alias.items():
            t3 = re.sub(r"\b%s\s*&\s*(\w+)" % name, r"%s* \1" % ty, t2)
            t3 = re.sub(r"\b%s\s+(\w+)\s*;" % name, r"%s \1[%s];" % (ty, n), t3)
            if t3 != t2:
                self.fire("std::array alias expanded")
            t2 = t3
        return t2

    def decl_fix(self, t):
        t = self.std_types(t)
        t = re.sub(r"\balignas\s*\((\w+)\)", r"__attribute__((aligned(\1)))", t)
        t = t.replace("nullptr", "NULL")
        t = re.sub(r"\brandomx::", "", t)
        if re.search(r"\bthread_local\b", t):
            # per-thread storage stays per-thread storage (C spelling); harnesses that reason about frames across threads treat
            # __thread objects as owned by the calling thread
            t = re.sub(r"\bthread_local\b", "__thread", t)
            t = re.sub(r"\b__thread\s+static\b", "static __thread", t)
            self.fire("thread_local -> __thread")
        return t

    def var_fix(self, t):
        t = self.decl_fix(t)
        # out-of-class static member definition  T C::name = v;
        mo = re.match(r"(.*?)\b(\w+)::(\w+)\s*(=.*|\[.*)?;$", t, re.S)
        if mo and mo.group(2) in self.classes:
            self.fire("static member definition")
            t = "%s %s_%s %s;" % (mo.group(1), mo.group(2), mo.group(3), mo.group(4) or "")
        t = re.sub(r"\bconstexpr\b", "const", t)
        return self.expr_fix(t)

    def expr_fix(self, e):
        e = re.sub(r"\brandomx::", "", e)
        e = re.sub(r"\b(?:static|reinterpret|const)_cast\s*<([^<>]*(?:<[^<>]*>)?[^<>]*)>\s*\(", r"(\1)(", e)
        for ec in self.enum_classes:
            e = re.sub(r"\b%s::(\w+)" % ec, r"%s_\1" % ec, e)
        e = re.sub(r"&\s*(\w+)::(\w+)\b(?!\s*\()", lambda mo: ("%s_%s" % (mo.group(1), mo.group(2))) if mo.group(1) in self.classes else mo.group(0), e)
        e = re.sub(r"\(\s*this\s*->\*\s*(\w+)\s*\)\s*\(", r"\1(self, ", e)
        e = e.replace("nullptr", "NULL")
        return e

    # ----------------------------------------------------------------------------------
    def parse_params(self, ptxt):
        params = []
        ptxt = ptxt.strip()
        if ptxt in ("", "void"):
            return params
        for p in split_top(ptxt):
            p = p.strip()
            d = {"text": p, "ref": False, "arrayref": False, "name": None, "default": None}
            pm = re.match(r"(.*?)=\s*([^=]+)$", p, re.S)
            if pm and "(" not in pm.group(1)[-1:]:
                p, d["default"] = pm.group(1).strip(), pm.group(2).strip()
            am = re.match(r"(.*?)\(\s*&\s*(\w*)\s*\)\s*\[(.*)\]$", p, re.S)
            if am:
                d.update(ref=True, arrayref=True, name=am.group(2) or None,
                         ctext="%s* %s" % (am.group(1).strip(), am.group(2)))
            else:
                rm = re.match(r"(.*?)\s*&\s*(\w*)$", p, re.S)
                if rm:
                    d.update(ref=True, name=rm.group(2) or None, ctext="%s* %s" % (rm.group(1).strip(), rm.group(2)))
                else:
                    nm = re.match(r"(.*?)(\w+)\s*(\[[^\]]*\])*$", p, re.S)
                    d["name"] = nm.group(2) if nm and nm.group(1).strip() else None
                    d["ctext"] = p
            d["ctext"] = self.type_fix(d["ctext"])
            params.append(d)
        return params

    def type_fix(self, t):
        t = self.std_types(t)
        t = re.sub(r"\brandomx::", "", t)
        t = re.sub(r"\b(\w+)\s*<[^<>]*>", lambda mo: mo.group(1) if mo.group(1) in self.template_classes or True else mo.group(0), t)
        return t

    def parse_func(self, it, t, m, cls):
        """parse a function definition/declaration; returns Func or None"""
        tm = re.match(r"template\s*<", m)
        tmpl = None
        off = 0
        if tm:
            gt = self._match_angle(m, tm.end() - 1)
            tmpl = t[tm.end():gt]
            off = gt + 1
        head_end = None
        # find first '(' at depth 0 that follows an identifier and is not __attribute__
        i = off
        n = len(m)
        par = None
        while i < n:
            ch = m[i]
            if ch == "(":
                pre = m[off:i].rstrip()
                idm = re.search(r"((?:\w+\s*::\s*)*~?\w+|operator\s*\(\s*\)|operator\s*[^\s\w(]+)$", pre)
                if idm and idm.group(1) in ("__attribute__", "__declspec", "alignas", "__asm__", "decltype"):
                    i = match_fwd(m, i, "(", ")") + 1
                    continue
                if not idm:
                    return None
                if idm.group(1) == "operator":
                    # operator()(...) : the first parenthesis pair is part of the name
                    i = match_fwd(m, i, "(", ")") + 1
                    while i < n and m[i].isspace():
                        i += 1
                    if i < n and m[i] == "(":
                        par = i
                        opcall = True
                        break
                    return None
                par = i
                break
            elif ch in "{;=":
                return None
            i += 1
        if par is None:
            return None
        pclose = match_fwd(m, par, "(", ")")
        pre = t[off:par].rstrip()
        idm = re.search(r"((?:\w+\s*::\s*)*~?\w+|(?:\w+\s*::\s*)*operator\s*\(\s*\)|operator\s*[^\s\w(]+)$", pre)
        qual = re.sub(r"\s+", "", idm.group(1))
        rettxt = pre[:idm.start()].strip()
        f = Func()
        f.tmpl = tmpl
        f.item = it
        f.file, f.line = it.file, it.line
        parts = qual.split("::")
        f.name = parts[-1]
        if len(parts) > 1:
            f.cls = parts[-2]
            if f.cls == "randomx":
                f.cls = None
        if cls:
            f.cls = cls
        rest = m[pclose + 1:]
        rest_t = t[pclose + 1:]
        rm = re.match(r"\s*(const\b)?\s*(noexcept\b)?\s*(override\b)?\s*(final\b)?\s*(=\s*0\s*|=\s*default\s*|=\s*delete\s*)?", rest)
        f.const = bool(rm.group(1))
        k = rm.end()
        tail = rest[k:].lstrip()
        if tail.startswith(";") or tail == "":
            f.is_decl = True
            f.body = None
        elif tail.startswith(":") and not tail.startswith("::"):
            b = rest.index("{", k)
            # the init list may contain braces only in C++11 brace-init; assume parens
            depth = 0
            j = k
            while j < len(rest):
                if rest[j] == "(":
                    j = match_fwd(rest, j, "(", ")")
                elif rest[j] == "{":
                    break
                j += 1
            f.init_list = rest_t[rest.index(":", k) + 1:j].strip()
            bc = match_fwd(rest, j, "{", "}")
            f.body = rest_t[j:bc + 1]
        elif tail.startswith("{"):
            b = rest.index("{", k)
            bc = match_fwd(rest, b, "{", "}")
            f.body = rest_t[b:bc + 1]
        else:
            return None
        quals = rettxt
        f.static = bool(re.search(r"\bstatic\b", quals))
        f.virtual = bool(re.search(r"\bvirtual\b", quals))
        quals = re.sub(r"\b(static|inline|virtual|constexpr|explicit|friend|extern)\b", " ", quals)
        quals = re.sub(r"__attribute__\s*\(\(.*?\)\)", " ", quals)
        f.ret = " ".join(quals.split())
        if f.cls and f.name == f.cls:
            f.name, f.ret = "ctor", "void"
        if f.name.startswith("~"):
            f.name, f.ret = "dtor", "void"
        if f.name.startswith("operator"):
            f.name = "op_call" if "(" in f.name else "op_" + str(abs(hash(f.name)) % 1000)
        f.params = self.parse_params(t[par + 1:pclose])
        f.cname = (f.cls + "_" if f.cls else "") + f.name
        if f.cname in self.spec.get("rename_defs", {}):
            f.cname = self.spec["rename_defs"][f.cname]
        if tmpl is not None and not f.cls:
            self.template_funcs.add(f.name)
        if tmpl is not None and f.cls:
            self.template_funcs.add(f.name)
        return f

    def _match_angle(self, m, i):
        d = 0
        for j in range(i, len(m)):
            if m[j] == "<":
                d += 1
            elif m[j] == ">":
                d -= 1
                if d == 0:
                    return j
        raise ExtractError("unbalanced <")

    # ----------------------------------------------------------------------------------
    def parse_class(self, it, t, m, mo):
        name = mo.group(3)
        if name in self.spec.get("opaque_classes", ()):
            # the recipe needs this class only as the target of pointers: body, methods and static members are dropped
            self.fire("class made opaque by recipe")
            self.dropped_types.add(name)
            return "text", "typedef struct %s %s;" % (name, name)
        c = self.classes.get(name) or Cls(name)
        c.item = it
        if mo.group(1) is not None:
            self.template_classes.add(name)
        if mo.group(4):
            bases_txt = mo.group(4)
            while re.search(r"<[^<>]*>", bases_txt):
                bases_txt = re.sub(r"<[^<>]*>", "", bases_txt)
            for b in split_top(bases_txt):
                b = re.sub(r"\b(public|protected|private|virtual)\b", "", b).strip()
                b = b.split("::")[-1]
                if b:
                    c.bases.append(b)
        bo = m.index("{", mo.end() - 1)
        bc = match_fwd(m, bo, "{", "}")
        body, mbody = t[bo + 1:bc], m[bo + 1:bc]
        mbody2 = re.sub(r"\b(public|protected|private)\s*:", lambda x: " " * len(x.group(0)), mbody)
        body2 = "".join(ch if mbody2[i] == mbody[i] else " " for i, ch in enumerate(body))
        # members
        for s, e in self._member_spans(mbody2):
            mt, mm = body2[s:e].strip(), mbody2[s:e].strip()
            if not mt:
                continue
            if re.match(r"(friend|using|static_assert)\b", mm):
                self.fire("class-level friend/using/static_assert dropped")
                continue
            if re.match(r"typedef\b", mm):
                c.pre.append(self.decl_fix(mt))
                continue
            if re.match(r"(?:static\s+)?constexpr\s+[\w ]+\b\w+\s*=", mm) and "(" not in mm.split("=")[0]:
                k, d = self.classify(Item(it.file, it.line, mt))
                c.pre.append(d)
                continue
            if re.match(r"(union|struct)\s*\{", mm):
                um = re.match(r"union\s*\{(.*)\}\s*;$", mt, re.S)
                if um:
                    # default member initialisers inside the union are dropped (constructors are not modelled)
                    inner2 = re.sub(r"\s*=\s*[^;{}]*;", ";", um.group(1))
                    if inner2 != um.group(1):
                        self.fire("default member initialiser dropped")
                        mt = "union {" + inner2 + "};"
                        um = re.match(r"union\s*\{(.*)\}\s*;$", mt, re.S)
                if um and name in self.spec.get("dealias_unions", []) and all("*" in x for x in um.group(1).split(";") if x.strip()):
                    # CBMC 6.11 mis-resolves reads of a non-first pointer member of a union through a pointer to the
                    # enclosing struct (spurious failures, measured).  The members are emitted as separate fields:
                    # an over-approximation as long as no kept function reads a member after writing another one.
                    self.fire("anonymous union of pointers de-aliased")
                    for x in um.group(1).split(";"):
                        if x.strip():
                            nm = re.search(r"(\w+)\s*$", x.strip())
                            c.fields.append((self.decl_fix(x.strip()) + ";", [nm.group(1)]))
                            c.field_names.append(nm.group(1))
                    continue
                c.fields.append((self.decl_fix(mt), []))
                # names inside an anonymous union are directly accessible
                mm2 = mask_strings(mt)
                inner = mm2[mm2.index("{") + 1:mm2.rindex("}")]
                after = mm2[mm2.rindex("}") + 1:].strip(" ;")
                if after:
                    c.field_names.append(after)
                else:
                    for x in inner.split(";"):
                        nm = re.search(r"(\w+)\s*(\[[^\]]*\])*\s*$", x.strip())
                        if nm:
                            c.field_names.append(nm.group(1))
                continue
            f = self.parse_func(Item(it.file, it.line + body[:s].count("\n") + t[:bo].count("\n"), mt), mt, mm, name)
            if f is not None:
                c.methods[f.name] = f
                f.inline_in_class = f.body is not None
                self.funcs.append(f)
                continue
            if re.match(r"static\b", mm):
                nm = re.search(r"(\w+)\s*(\[[^\]]*\])*\s*(=.*)?;$", mm, re.S)
                if nm:
                    c.statics[nm.group(1)] = mt
                self.fire("static data member hoisted")
                continue
            # plain field(s): drop default initialisers
            ft = mt
            fm = re.match(r"(.*?)\s*=\s*[^;]*;$", ft, re.S)
            if fm and "(" not in fm.group(1):
                ft = fm.group(1) + ";"
                self.fire("default member initialiser dropped")
            ft = self.decl_fix(ft)
            ft = re.sub(r"\b(\w+)\s*<[^<>;]*>", r"\1", ft)
            rm = re.match(r"(.*?)\s*&\s*(\w+)\s*;$", ft, re.S)
            if rm:
                ft = "%s* %s;" % (rm.group(1), rm.group(2))
                self.fire("reference field->pointer")
            names = []
            decl = ft.rstrip(";")
            for k, part in enumerate(split_top(decl)):
                nm = re.search(r"(\w+)\s*(\[[^\]]*\])*\s*$", part.strip())
                if nm:
                    names.append(nm.group(1))
            c.fields.append((ft, names))
            c.field_names.extend(names)
        self.classes[name] = c
        self.fire("class->struct")
        return "class", c

    def _member_spans(self, m):
        spans = []
        i, n, start = 0, len(m), None
        while i < n:
            ch = m[i]
            if start is None:
                if ch.isspace() or ch == ";":
                    i += 1
                    continue
                start = i
            if ch == ";":
                spans.append((start, i + 1))
                start = None
                i += 1
            elif ch in "([":
                i = match_fwd(m, i, ch, ")" if ch == "(" else "]") + 1
            elif ch == "{":
                head = m[start:i]
                close = match_fwd(m, i, "{", "}")
                if TYPE_HEAD.search(head) or re.search(r"=\s*$", head) or re.match(r"\s*(union|struct)\s*$", head):
                    i = close + 1
                else:
                    spans.append((start, close + 1))
                    start = None
                    i = close + 1
            else:
                i += 1
        return spans

    # ----------------------------------------------------------------------------------
    def all_fields(self, cname, seen=None):
        """(field texts, names) of class with bases flattened first"""
        seen = seen or set()
        c = self.classes.get(cname)
        if c is None or cname in seen:
            return [], []
        seen.add(cname)
        texts, names = [], []
        for b in c.bases:
            t2, n2 = self.all_fields(b, seen)
            texts += t2
            names += n2
        texts += [f[0] for f in c.fields]
        names += c.field_names
        return texts, names

    def all_methods(self, cname, seen=None):
        seen = seen or set()
        c = self.classes.get(cname)
        res = {}
        if c is None or cname in seen:
            return res
        seen.add(cname)
        for b in c.bases:
            res.update(self.all_methods(b, seen))
        for k, f in c.methods.items():
            res[k] = f
        return res

    def all_statics(self, cname, seen=None):
        seen = seen or set()
        c = self.classes.get(cname)
        res = {}
        if c is None or cname in seen:
            return res
        seen.add(cname)
        for b in c.bases:
            res.update(self.all_statics(b, seen))
        for k in c.statics:
            res[k] = c.name
        return res

    def struct_name(self, cname):
        return self.alias.get(cname, cname)

    def emit_class(self, c):
        sn = self.struct_name(c.name)
        out = list(c.pre)
        fl = self.spec.get("flatten")
        if fl and c.name in fl["chain"]:
            # the whole inheritance chain is one struct, named after the root, with the fields of the concrete class
            if c.name != fl["concrete"]:
                out.append("struct %s; typedef struct %s %s;" % (sn, sn, c.name))
                self.fire("class of flattened chain -> typedef of the root struct")
                return "\n".join(out)
            texts, names = self.all_fields(c.name)
            out.append("struct %s {\n\t%s\n};\ntypedef struct %s %s;" % (sn, "\n\t".join(texts), sn, c.name))
            self.fire("concrete class of flattened chain -> struct with base fields first")
            return "\n".join(out)
        if sn != c.name:
            out.append("struct %s; typedef struct %s %s;" % (sn, sn, c.name))
            self.fire("class aliased onto concrete struct")
            return "\n".join(out)
        texts, names = self.all_fields(c.name)
        if not texts:
            texts = ["char rxv_empty_;"]
        out.append("struct %s {\n\t%s\n};\ntypedef struct %s %s;" % (sn, "\n\t".join(texts), sn, c.name))
        for a, tgt in self.alias.items():
            if tgt == c.name and a != c.name and a in self.classes and self.classes[a].item is not None:
                pass
        for sname, stext in c.statics.items():
            if any(re.search(r"\b%s\b" % re.escape(d), stext) for d in self.dropped_types):
                self.fire("static data member of dropped type omitted")
                continue
            st = re.sub(r"\bstatic\b", "extern", self.decl_fix(stext), 1)
            st = re.sub(r"\b(%s)\b(?=\s*(\[|;|=))" % re.escape(sname), "%s_%s" % (c.name, sname), st)
            st = re.sub(r"\s*=\s*[^;]*;", ";", st)
            out.append(st)
        return "\n".join(out)

    # ----------------------------------------------------------------------------------
    def emit_func(self, f):
        params = []
        cls_for_members = f.cls
        if f.cls and not f.static:
            sn = self.struct_name(f.cls)
            params.append("%sstruct %s* self" % ("const " if False else "", sn))
        for p in f.params:
            params.append(p["ctext"])
            if p["default"] is not None:
                self.fire("default argument dropped")
        static_kw = ""
        if f.item is not None and re.match(r"(?:template\s*<[^>]*>\s*)?(?:[\w\s]*\b)?static\b", f.item.text.split("(")[0]) and not f.cls:
            static_kw = "static "
        if getattr(f, "inline_in_class", False) or re.search(r"\b(inline|constexpr)\b", f.item.text.split("(")[0]):
            static_kw = "static "
        ret = self.type_fix(self.expr_fix(f.ret))
        ref_ret = ret.rstrip().endswith("&")
        if ref_ret:
            ret = ret.rstrip()[:-1].rstrip() + "*"
            self.fire("reference return -> pointer")
        proto = "%s%s %s(%s)" % (static_kw, ret, f.cname, ", ".join(params) if params else "void")
        body = self.body_fix(f)
        if ref_ret:
            body = re.sub(r"\breturn\s+([^;]+);", r"return &(\1);", body)
        if f.init_list:
            inits = []
            for x in split_top(f.init_list):
                im = re.match(r"\s*(\w+)\s*\((.*)\)\s*$", x, re.S)
                if im and im.group(1) in self.all_fields(f.cls)[1]:
                    inits.append("self->%s = %s;" % (im.group(1), self.expr_only_fix(im.group(2), f) or "0"))
                    self.fire("ctor init-list -> assignment")
                elif im:
                    inits.append("/* base/member ctor %s(...) not modelled */" % im.group(1))
                    self.fire("ctor init-list base call dropped")
            body = "{\n\t" + "\n\t".join(inits) + "\n" + body[1:]
        # function-local statics (not thread-local, not const) are hoisted to file scope under a unique name: same object, same
        # lifetime, same initial value - but visible to the frame checks of the contract instrumentation, which would otherwise
        # add a function's own local statics to its frame silently although every thread calling the function shares them
        hoisted = []
        def hoist(mo):
            if re.search(r"\b(__thread|const)\b", mo.group(0)):
                return mo.group(0)
            nm = "%s__%s" % (f.cname, mo.group(3))
            hoisted.append("static %s%s%s%s;" % (mo.group(2), nm, mo.group(4) or "", mo.group(5) or ""))
            self.fire("function-local static hoisted to file scope")
            return "%s/* static local %s hoisted: %s */\n#define %s %s\n" % (mo.group(1), mo.group(3), nm, mo.group(3), nm)
        # (an alignment specifier may precede `static`; the declarator may be an array)
        body = re.sub(r"(^|\n)[ \t]*(?:(?:alignas|_Alignas)\s*\([^)]*\)\s*|__attribute__\s*\(\([^;]*?\)\)\s*)*static\s+([^;=(){}]*?[\s*])(\w+)\s*((?:\[[^\]]*\])*)\s*(=[^;]*)?;", hoist, body)
        undef = "".join("#undef %s\n" % re.search(r"__(\w+?)(?:\[|\s|=|;)", h.split("static ", 1)[1].split(f.cname, 1)[1]).group(1) for h in hoisted)
        return proto, "\n".join(hoisted) + ("\n" if hoisted else "") + proto + "\n" + body + ("\n" + undef if hoisted else "")

    def expr_only_fix(self, e, f):
        g = Func()
        g.__dict__.update(f.__dict__)
        g.body = "{" + e + ";}"
        g.init_list = None
        r = self.body_fix(g)
        return r[1:-2].strip().rstrip(";")

    # ----------------------------------------------------------------------------------
    def body_fix(self, f):
        b = f.body
        for rw in self.spec.get("pre_rewrites", []):
            if rw.get("function") and not fnmatch.fnmatchcase(f.cname, rw["function"]):
                continue
            b, k = re.subn(rw["pattern"], rw["repl"], b)
            self.fire("recipe rewrite: " + rw["name"], k)
        if re.search(r"\bthread_local\b", b):
            b = re.sub(r"\bthread_local\b", "__thread", b)
            b = re.sub(r"\b__thread\s+static\b", "static __thread", b)
            self.fire("thread_local -> __thread")
        b = self.expr_fix(b)
        n0 = len(re.findall(r"\b(?:static|reinterpret|const)_cast\b", f.body))
        self.fire("cast", n0)
        # template arguments at calls
        def tcall(mo):
            if mo.group(1) in self.template_funcs or mo.group(1) in self.template_classes:
                self.fire("template args dropped at use")
                return mo.group(1) + mo.group(3)
            return mo.group(0)
        b = re.sub(r"\b(\w+)\s*<([\w\s,:]*)>(\s*\(|\s*::)", tcall, b)
        b = re.sub(r"\bstd::swap\s*\(", lambda mo: (self.fire("std::swap"), "RXV_SWAP(")[1], b)
        b = re.sub(r"\bstd::max\s*\(", lambda mo: (self.fire("std::max"), "RXV_MAX(")[1], b)
        b = re.sub(r"\bstd::min\s*\(", lambda mo: (self.fire("std::min"), "RXV_MIN(")[1], b)
        b = re.sub(r"\balignas\s*\((\w+)\)", r"__attribute__((aligned(\1)))", b)
        b = re.sub(r"\bconstexpr\b", "const", b)
        b = re.sub(r"\bthrow\s+[\w:]+\s*\(([^;]*)\)\s*;", lambda mo: (self.fire("throw"), "RXV_THROW(%s);" % mo.group(1))[1], b)
        def new_expr(mo):
            name = mo.group(1)
            if name in self.template_alias:
                cls, targs = self.template_alias[name]
                self.fire("new of template-instantiation alias -> rxv_new_<Class>(template args, ctor args)")
                rest = mo.group(2).strip()
                return "rxv_new_%s(%s%s)" % (cls, ", ".join(targs), (", " + rest) if rest else "")
            self.fire("new -> rxv_new_<Class>")
            return "rxv_new_%s(%s)" % (name, mo.group(2))
        b = re.sub(r"\bnew\s+(\w+)\s*\(([^;()]*)\)", new_expr, b)
        b = re.sub(r"\bnew\s+(\w+)\s*(?=;)", lambda mo: (self.fire("new -> rxv_new_<Class>"), "rxv_new_%s()" % mo.group(1))[1], b)
        b = re.sub(r"\bdelete\s+(\w+(?:\s*->\s*\w+|\.\w+)*)\s*;", lambda mo: (self.fire("delete -> rxv_delete"), "rxv_delete(%s);" % mo.group(1))[1], b)
        exc = self.spec.get("exceptions")
        if exc and re.search(r"\btry\s*\{", b):
            # exception flow model (recipe option): calls listed in may_throw signal an exception by setting rxv_exc; control
            # leaves the try block right after the statement containing the call (the statement itself completes with the
            # stub's return value: exact only where the assigned object already holds that value - stated by the suites
            # that use it) and enters the handler, which clears the flag.  Nested try blocks are not supported.
            out, pos, k = [], 0, 0
            mb = mask_strings(b)
            for mo in re.finditer(r"\btry\s*\{", mb):
                if mo.start() < pos:
                    raise ExtractError("nested try blocks are outside the exception-flow model")
                bo = mo.end() - 1
                bc = match_fwd(mb, bo, "{", "}")
                cm = re.match(r"\s*catch\s*\([^)]*\)\s*\{", mb[bc + 1:])
                if not cm:
                    raise ExtractError("try block without directly following catch")
                inner = b[bo + 1:bc]
                names = "|".join(re.escape(n) for n in exc["may_throw"])
                inner2, n = re.subn(r"([^;{}]*\b(?:%s)\s*\([^;]*;)" % names, lambda x: x.group(1) + " if (rxv_exc) goto rxv_catch_%d;" % k, inner)
                self.fire("exception flow: exits from try block after may-throw calls", n)
                out.append(b[pos:mo.start()] + "{" + inner2 + "}\n rxv_catch_%d: ; if (rxv_exc ? (rxv_exc = 0, 1) : 0) {" % k)
                pos = bc + 1 + cm.end()
                k += 1
            b = "".join(out) + b[pos:]
            self.fire("try/catch -> exception flow model", k)
        b = re.sub(r"\btry\s*\{", lambda mo: (self.fire("try block -> plain block"), "{")[1], b)
        b = re.sub(r"\bcatch\s*\([^)]*\)\s*\{", lambda mo: (self.fire("catch -> if (RXV_CAUGHT)"), "if (RXV_CAUGHT) {")[1], b)
        # auto
        def auto_ref(mo):
            self.fire("auto&")
            name, expr = mo.group(2), mo.group(3)
            self._local_refs.append(name)
            # a reference bound to a conditional lvalue (C++ only): & is distributed over the two arms, `&(c ? a : b)` is not C
            cm = re.match(r"^\s*\((.*)\)\s*\?\s*([\w.\->\[\]]+)\s*:\s*([\w.\->\[\]]+)\s*$", expr, re.S)
            if cm:
                self.fire("reference to conditional lvalue -> conditional of addresses")
                return "%s__typeof__(%s)* %s = &(*((%s) ? &(%s) : &(%s)));" % (mo.group(1) or "", cm.group(2), name, cm.group(1), cm.group(2), cm.group(3))
            return "%s__typeof__(%s)* %s = &(%s);" % (mo.group(1) or "", expr, name, expr)
        self._local_refs = []
        b = re.sub(r"\b(const\s+)?auto\s*&\s*(\w+)\s*=\s*([^;]+);", auto_ref, b)
        def auto_val(mo):
            self.fire("auto")
            return "%s__typeof__(%s) %s = %s;" % (mo.group(1) or "", mo.group(3), mo.group(2), mo.group(3))
        b = re.sub(r"\b(const\s+)?auto\s+(\w+)\s*=\s*([^;]+);", auto_val, b)
        # explicit local references  T& x = e;
        def loc_ref(mo):
            self.fire("local reference")
            self._local_refs.append(mo.group(2))
            return "%s* %s = &(%s);" % (mo.group(1), mo.group(2), mo.group(3))
        b = re.sub(r"\b((?:const\s+)?\w+)\s*&\s*(\w+)\s*=\s*([^;]+);", loc_ref, b)
        # uses of reference params and local refs
        refs = [p["name"] for p in f.params if p["ref"] and not p["arrayref"] and p["name"]] + self._local_refs
        for r in refs:
            # skip the declaration itself  "T* r = &("
            def use(mo, r=r):
                pre = b[max(0, mo.start() - 2):mo.start()]
                return mo.group(0)
            pat = re.compile(r"(?<![\w.>])%s\b(?!\s*=\s*&\()" % re.escape(r))
            cnt = 0
            out, pos = [], 0
            for mo in pat.finditer(b):
                # not the declarator we just produced: preceded by '* '
                before = b[max(0, mo.start() - 2):mo.start()]
                if before.endswith("* ") and r in self._local_refs and re.match(r"\s*=\s*&\(", b[mo.end():]):
                    continue
                if b[max(0, mo.start() - 2):mo.start()] == "->":
                    continue
                out.append(b[pos:mo.start()] + "(*%s)" % r)
                pos = mo.end()
                cnt += 1
            out.append(b[pos:])
            b = "".join(out)
            self.fire("reference use -> deref", cnt)
        # member machinery
        if f.cls:
            b = self.member_fix(b, f)
        b = self.method_calls(b, f)
        b = self.ref_args(b)
        # calls of reference-returning functions are dereferenced
        for cn in self.ref_returning:
            pos = 0
            pat = re.compile(r"(?<![\w.>*])%s\s*\(" % re.escape(cn))
            while True:
                mo = pat.search(b, pos)
                if not mo:
                    break
                q = match_fwd(mask_strings(b), mo.end() - 1, "(", ")")
                b = b[:mo.start()] + "(*" + b[mo.start():q + 1] + ")" + b[q + 1:]
                pos = q + 3
                self.fire("call of reference-returning function dereferenced")
        return b

    # qualified / member calls ----------------------------------------------------------
    def member_fix(self, b, f):
        texts, fields = self.all_fields(f.cls)
        methods = self.all_methods(f.cls)
        statics = self.all_statics(f.cls)
        locals_ = set(p["name"] for p in f.params if p["name"])
        # Base::method(...) / Class::method(...) inside a method
        def qcall(mo):
            cls, name = mo.group(1), mo.group(2)
            tgt = self.classes.get(cls)
            if tgt is None:
                return mo.group(0)
            meth = self.all_methods(cls).get(name)
            owner = meth.cls if meth else cls
            cn = self.renames.get("%s_%s" % (owner, name), "%s_%s" % (owner, name))
            self.fire("qualified method call")
            if meth is not None and meth.static:
                return "%s(" % cn
            rest = b[mo.end():]
            return "%s(self%s" % (cn, "" if rest.lstrip().startswith(")") else ", ")
        b = re.sub(r"\b(\w+)::(\w+)\s*\(", qcall, b)
        # Class::staticdata
        def qstat(mo):
            if mo.group(1) in self.classes:
                self.fire("qualified static member")
                return "%s_%s" % (mo.group(1), mo.group(2))
            return mo.group(0)
        b = re.sub(r"\b(\w+)::(\w+)\b(?!\s*\()", qstat, b)
        # unqualified method calls
        for name, meth in methods.items():
            if name in ("ctor", "dtor"):
                continue
            tname = self.virtual.get(name)
            owner = tname or meth.cls
            cn = self.renames.get("%s_%s" % (owner, name), "%s_%s" % (owner, name))
            pat = re.compile(r"(?<![\w.>:])%s\s*\(" % re.escape(name))
            out, pos, cnt = [], 0, 0
            for mo in pat.finditer(b):
                rest = b[mo.end():]
                if meth.static:
                    rep = "%s(" % cn
                else:
                    rep = "%s(self%s" % (cn, "" if rest.lstrip().startswith(")") else ", ")
                out.append(b[pos:mo.start()] + rep)
                pos = mo.end()
                cnt += 1
            out.append(b[pos:])
            b = "".join(out)
            self.fire("own method call", cnt)
        # static data members
        for sname, owner in statics.items():
            b, k = re.subn(r"(?<![\w.>:])%s\b(?!\s*\()" % re.escape(sname), "%s_%s" % (owner, sname), b)
            self.fire("static data member use", k)
        if not f.static:
            for name in fields:
                if name in locals_:
                    continue
                # a local declaration with the same name shadows the member
                if re.search(r"\b(?:int|unsigned|uint\d+_t|int\d+_t|size_t|char|auto|\w+_t|[A-Z]\w*|\w+\s*\*)\s+%s\s*[=;,\[]" % re.escape(name), b):
                    self.fire("member shadowed by local (left alone)")
                    continue
                b, k = re.subn(r"(?<![\w.>:])%s\b(?!\s*::)" % re.escape(name), "self->%s" % name, b)
                b = b.replace("self->self->", "self->")
                self.fire("member -> self->", k)
        b = re.sub(r"\bthis\s*->", "self->", b)
        b = re.sub(r"\bthis\b", "self", b)
        return b

    def method_calls(self, b, f):
        """expr.method(args) / expr->method(args) for methods of known classes; Class::static(...) anywhere"""
        # Class::f( outside class context
        def qcall(mo):
            cls, name = mo.group(1), mo.group(2)
            if cls in self.classes:
                self.fire("Class::static call")
                cn = "%s_%s" % (cls, name)
                return self.renames.get(cn, cn) + "("
            return mo.group(0)
        b = re.sub(r"\b(\w+)::(\w+)\s*\(", qcall, b)
        pat = re.compile(r"(\.|->)\s*(\w+)\s*\(")
        pos = 0
        while True:
            mo = pat.search(b, pos)
            if not mo:
                break
            name = mo.group(2)
            owner = self.virtual.get(name) or self.method_owner.get(name)
            if name in self.spec.get("not_methods", ()):      # function-pointer data members called through the object
                owner = None
            if owner is None or owner not in self.classes or name not in self.all_methods(owner):
                pos = mo.end()
                continue
            meth = self.all_methods(owner)[name]
            owner_guess = owner
            # object expression: scan backwards
            j = mo.start() - 1
            while j >= 0 and b[j].isspace():
                j -= 1
            end = j + 1
            while j >= 0:
                ch = b[j]
                if ch == ")":
                    j = match_back(b, j, "(", ")") - 1
                elif ch == "]":
                    j = match_back(b, j, "[", "]") - 1
                elif ch.isalnum() or ch == "_":
                    while j >= 0 and (b[j].isalnum() or b[j] == "_"):
                        j -= 1
                    # continue through . or ->
                    k = j
                    while k >= 0 and b[k].isspace():
                        k -= 1
                    if k >= 0 and b[k] == ".":
                        j = k - 1
                        continue
                    if k >= 1 and b[k - 1:k + 1] == "->":
                        j = k - 2
                        continue
                    break
                else:
                    break
            obj = b[j + 1:end]
            if not obj.strip():
                pos = mo.end()
                continue
            # prefer the class of the object's declared type (field or parameter) when the method name is ambiguous
            vn = re.search(r"(\w+)\W*$", obj)
            if vn and not self.virtual.get(name):
                decls = [p["ctext"] for p in f.params] + (self.all_fields(f.cls)[0] if f.cls else [])
                for d in decls:
                    dm = re.match(r"\s*(?:const\s+)?(?:struct\s+)?(\w+)\s*\*?\s*%s\s*(?:\[[^\]]*\])?\s*;?\s*$" % re.escape(vn.group(1)), d)
                    if dm:
                        ty = dm.group(1)
                        ty = self.type_alias.get(ty, ty)
                        if ty in self.classes and name in self.all_methods(ty):
                            meth = self.all_methods(ty)[name]
                        break
            cn = "%s_%s" % (meth.cls if not self.virtual.get(name) else owner, name)
            cn = self.renames.get(cn, cn)
            if name == "op_call":
                pos = mo.end()
                continue
            selfarg = ("&(%s)" % obj.strip()) if mo.group(1) == "." else obj.strip()
            rest = b[mo.end():]
            if meth.static:
                rep = "%s(" % cn
            else:
                rep = "%s(%s%s" % (cn, selfarg, "" if rest.lstrip().startswith(")") else ", ")
            b = b[:j + 1] + rep + b[mo.end():]
            pos = j + 1 + len(rep)
            self.fire("object method call")
        # operator() on objects whose declared type is a class with operator()
        opcls = [c for c in self.classes.values() if "op_call" in c.methods]
        if opcls:
            cand = {}
            decls = [p["ctext"] for p in f.params]
            if f.cls:
                decls += self.all_fields(f.cls)[0]
            for d in decls:
                for c in opcls:
                    dm = re.match(r"\s*(?:const\s+)?(?:struct\s+)?%s\s*(\*?)\s*(\w+)\s*;?$" % re.escape(c.name), d)
                    if dm:
                        cand[dm.group(2)] = (c.name, bool(dm.group(1)))
            for v, (cn, isptr) in cand.items():
                pat2 = re.compile(r"(?<![\w.>])(\(\*%s\)|self->%s|%s)\s*\(" % (re.escape(v), re.escape(v), re.escape(v)))
                def oc(mo, cn=cn, v=v, isptr=isptr):
                    self.fire("operator() call")
                    tok = mo.group(1)
                    if tok.startswith("(*"):
                        return "%s_op_call(%s, " % (cn, v)
                    return "%s_op_call(%s%s, " % (cn, "" if isptr else "&", tok)
                b = pat2.sub(oc, b)
        # operator() on configured objects:  name(args) -> Class_op_call(&name, args)
        for objname, cn in self.spec.get("call_ops", {}).items():
            pat2 = re.compile(r"(?<![\w.>])%s\s*\(" % re.escape(objname))
            b, k = pat2.subn("%s(&(%s), " % (cn, objname if not objname.startswith("self->") else objname), b)
            self.fire("operator() call", k)
        return b

    def ref_args(self, b):
        """wrap arguments bound to reference parameters of known functions in &( )"""
        names = [n for n, sig in self.ref_sigs.items() if any(sig)]
        if not names:
            return b
        pat = re.compile(r"(?<![\w.>])(%s)\s*\(" % "|".join(re.escape(n) for n in sorted(names, key=len, reverse=True)))
        pos = 0
        m = mask_strings(b)
        while True:
            mo = pat.search(b, pos)
            if not mo:
                break
            name = mo.group(1)
            sig = list(self.ref_sigs[name])
            p = mo.end() - 1
            m = mask_strings(b)
            q = match_fwd(m, p, "(", ")")
            args = split_top(b[p + 1:q])
            fobj = [x for x in self.funcs if x.cname == name]
            has_self = bool(fobj and fobj[-1].cls and not fobj[-1].static)
            if has_self:
                sig = [False] + sig
            if len(args) != len(sig) or (len(args) == 1 and not args[0].strip()):
                pos = mo.end()
                continue
            new = []
            for a, r in zip(args, sig):
                if r:
                    a2 = a.strip()
                    if a2.startswith("(*") and a2.endswith(")") and match_fwd(a2, 0, "(", ")") == len(a2) - 1:
                        new.append(" " + a2[2:-1])
                    else:
                        new.append(" &(%s)" % a2)
                    self.fire("argument bound to reference -> address")
                else:
                    new.append(a)
            rep = ",".join(new)
            b = b[:p + 1] + rep + b[q:]
            pos = p + 1
        return b

    # ----------------------------------------------------------------------------------
    def residue_check(self, text):
        # only look at lines that came from C++ files (after prelude); cheap global scan
        m = mask_strings(text)
        # strip linemarkers and the verbatim C parts is hard; scan whole text for C++-only tokens
        bad = []
        for pat, what in ((r"\b\w+::\w+", "scope operator"), (r"\btemplate\s*<", "template"), (r"\bauto\b", "auto"),
                          (r"\bnew\s+\w", "new"), (r"\bdelete\b", "delete"), (r"\bthrow\b", "throw"),
                          (r"\btry\s*\{", "try"), (r"\bcatch\s*\(", "catch"), (r"\bnullptr\b", "nullptr"),
                          (r"\b(?:static|reinterpret|const|dynamic)_cast\b", "C++ cast"), (r"\boperator\b", "operator")):
            for mo in re.finditer(pat, m):
                line = m.count("\n", 0, mo.start()) + 1
                ctx = text[max(0, mo.start() - 40):mo.end() + 40].replace("\n", " ")
                bad.append("%s at output line %d: ...%s..." % (what, line, ctx))
        if bad:
            raise ExtractError("C++ residue after rewriting: " + " | ".join(bad[:5]))


def translate(spec, repo, scratch):
    """spec keys: main (path rel. to repo), keep [patterns], defines, undefs, class_alias, method_owner, virtual,
    call_ops, rename_calls, rename_defs, portable (bool, default True)"""
    path = os.path.join(repo, spec["main"])
    undefs = list(spec.get("undefs", []))
    if spec.get("portable", True):
        undefs += PORTABLE_UNDEFS
    defines = ['UNREACHABLE=__CPROVER_assert(0,"UNREACHABLE reached")'] + list(spec.get("defines", []))
    pp = preprocess(path, repo, defines, undefs, spec.get("incdirs", []))
    pp = re.sub(r"^[ \t]*#[ \t]*pragma[^\n]*$", "", pp, flags=re.M)   # pragmas (pack/GCC options) carry no semantics here
    # facts about dropped initialisers that a harness re-states (e.g. constant tables built by C++ constructors): each pattern
    # must occur in the preprocessed source of this run, otherwise the harness's copy may be stale -> ExtractError (exit 2)
    for sm in spec.get("source_must_match", []):
        if not re.search(sm["pattern"], pp):
            raise ExtractError("source fact '%s' not found in %s" % (sm["name"], spec["main"]))
    for rw in spec.get("global_rewrites", []):      # recipe: textual rewrites of the whole preprocessed unit (types that the C subset cannot name)
        pp = re.sub(rw["pattern"], rw["repl"], pp)
    clean, marks = strip_linemarkers(pp)
    items = split_items(clean, marks)
    tr = Translator(spec, repo)
    text = tr.run(items)
    fired = ["%s x%d" % (k, v) for k, v in sorted(tr.fired.items())]
    for rule, minimum in spec.get("must_fire", {}).items():
        if tr.fired.get(rule, 0) < minimum:
            raise ExtractError("rule '%s' fired %d times, expected >= %d" % (rule, tr.fired.get(rule, 0), minimum))
    # only_uses: every occurrence of a token in the extracted text must be one of the listed forms (e.g. "the code buffer
    # is only ever written, never read"), otherwise the abstraction a harness relies on is void -> ExtractError (exit 2)
    for ou in spec.get("only_uses", []):
        n_tok = len(re.findall(ou["token"], text))
        n_ok = sum(len(re.findall(a, text)) for a in ou["allowed"])
        if n_tok != n_ok or n_tok < ou.get("min", 1):
            raise ExtractError("only_uses '%s': %d occurrences, %d in an allowed form" % (ou["name"], n_tok, n_ok))
        fired.append("only_uses %s x%d" % (ou["name"], n_tok))
    return text, fired


if __name__ == "__main__":
    import sys, json
    spec = json.load(open(sys.argv[1]))
    t, f = translate(spec, "/repo", "/tmp")
    sys.stdout.write(t)
    sys.stderr.write("\n".join(f) + "\n")
