class ExtractError(Exception):
    pass
def translate(spec, repo, scratch):
    raise ExtractError("not implemented")
