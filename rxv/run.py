#!/usr/bin/env python3
"""rxv driver:  python3 rxv/run.py <Cxx> [--tier quick|thorough] [--replay file] [--only name] [--keep] [--list]

exit 0  every obligation discharged (KNOWN-FINDING lines possible)
exit 1  a property obligation failed: line `VIOLATION property=<id> replay=<path>` on stdout
exit 2  undecided (tool error, timeout, extraction break, vacuity canary did not fire) - never a violation
"""
import argparse, concurrent.futures as cf, importlib.util, json, os, random, re, shutil, sys, tempfile, time, traceback

HERE = os.path.dirname(os.path.abspath(__file__))
VERIF = os.path.dirname(HERE)
sys.path.insert(0, HERE)
import cbmc as C  # noqa
import weave as W  # noqa
import cxx2c as X  # noqa
import replay as R  # noqa
import asmsizes as AS  # noqa

REPO = C.REPO


def load_suite(pid):
    p = os.path.join(VERIF, "suites", pid, "suite.py")
    if not os.path.exists(p):
        sys.exit("no suite for " + pid)
    spec = importlib.util.spec_from_file_location("suite_" + pid, p)
    mod = importlib.util.module_from_spec(spec)
    spec.loader.exec_module(mod)
    return mod


def known_findings():
    res = {"finding": [], "fixed": []}
    p = os.path.join(VERIF, "known_findings.txt")
    if os.path.exists(p):
        for l in open(p):
            l = l.strip()
            if not l or l.startswith("#"):
                continue
            m = re.match(r"(finding|fixed):\s+property=(\S+)\s+(.*)", l)
            if m:
                kv = dict(re.findall(r"(\w+)=(\S+)", m.group(3)))
                res[m.group(1)].append({"property": m.group(2), "obligation": kv.get("obligation"),
                                        "site": kv.get("site"), "text": m.group(3)})
    return res


def classify(ob, results):
    """split CBMC results into canary / unwinding / internal / property; returns dict"""
    out = {"canary_fired": False, "canary_seen": False, "unwind_failed": [], "failed": [], "n": 0, "ok": 0,
           "internal": 0, "classes": {}}
    for r in results:
        name, st, desc = r.get("property", ""), r.get("status"), r.get("description", "")
        if desc.startswith("canary"):
            out["canary_seen"] = True
            if st == "FAILURE":
                out["canary_fired"] = True
            continue
        if ".unwind." in name or "unwinding assertion" in desc:
            if st != "SUCCESS":
                out["unwind_failed"].append(name)
            continue
        if name.startswith(C.INTERNAL_PREFIXES):
            out["internal"] += 1
            if st != "SUCCESS":
                out["failed"].append({"property": name, "description": desc, "internal": True})
            continue
        out["n"] += 1
        cls = re.sub(r"\.\d+$", "", name.split(".", 1)[1]) if "." in name else name
        out["classes"][cls] = out["classes"].get(cls, 0) + 1
        if st == "SUCCESS":
            out["ok"] += 1
        else:
            loc = r.get("sourceLocation") or {}
            out["failed"].append({"property": name, "description": desc, "status": st,
                                  "file": loc.get("file"), "line": loc.get("line"), "function": loc.get("function")})
    return out


def prepare_sources(ob, suite_dir, scratch, fired):
    files = []
    for f in ob["files"]:
        if isinstance(f, str):
            files.append(resolve(f, suite_dir, scratch))
            continue
        # dict: a prep step producing a file in scratch
        out = os.path.join(scratch, f["out"])
        os.makedirs(os.path.dirname(out), exist_ok=True)
        if "weave" in f:
            src = resolve(f["weave"], suite_dir, scratch)
            text, fr = W.weave(open(src).read(), f["loops"])
            fired += ["weave:" + x for x in fr]
            open(out, "w").write('#line 1 "%s"\n' % src + text)
        elif "cxx" in f:
            text, fr = X.translate(f["cxx"], REPO, scratch)
            if f.get("loops"):
                text, fr2 = W.weave(text, f["loops"])
                fired += ["weave:" + x for x in fr2]
            fired += fr
            open(out, "w").write(text)
        elif "asm_sizes" in f:
            sizes = AS.measure(REPO, f["asm_sizes"], f["asm"], scratch)
            open(out, "w").write(AS.header(sizes))
            fired.append("asm blob sizes measured: %d" % len(sizes))
        else:
            raise C.ToolError("unknown prep step")
        if not f.get("header"):
            files.append(out)
    return files


def resolve(f, suite_dir, scratch):
    if f.startswith("@repo/"):
        return os.path.join(REPO, f[6:])
    if f.startswith("@scratch/"):
        return os.path.join(scratch, f[9:])
    if f.startswith("@stubs/"):
        return os.path.join(VERIF, "stubs", f[7:])
    if f.startswith("@suites/"):
        return os.path.join(VERIF, "suites", f[8:])
    return os.path.join(suite_dir, f)


def run_obligation(ob, pid, suite_dir, root, keep):
    t0 = time.time()
    scratch = os.path.join(root, re.sub(r"\W", "_", ob["name"]))
    os.makedirs(scratch)
    log, fired = [], []
    res = {"name": ob["name"], "status": "undecided", "log": log, "backend": ob.get("backend", "minisat"),
           "enforce": ob.get("enforce"), "replace": ob.get("replace", []), "bounded": ob.get("bounded"),
           "kind": ob.get("kind", "cbmc")}
    try:
        ob = dict(ob)
        ob["incdirs"] = [scratch, suite_dir, os.path.join(VERIF, "stubs")] + \
                        [resolve(i, suite_dir, scratch) for i in ob.get("incdirs", [])] + [os.path.join(REPO, "src")]
        ob["includes"] = [resolve(i, suite_dir, scratch) for i in ob.get("includes", [])]
        if ob.get("kind") == "native":
            res.update(R.run_native(ob, pid, suite_dir, scratch, log))
        else:
            files = prepare_sources(ob, suite_dir, scratch, fired)
            gb = C.compile_goto(ob, scratch, files, log)
            gb = C.instrument(ob, scratch, gb, log)
            r = C.check(ob, scratch, gb, log)
            res["seconds"] = round(r["seconds"], 2)
            if r["status"] == "timeout":
                res["why"] = "solver timeout after %ds on back end %s" % (ob.get("timeout", 900), res["backend"])
            elif r["status"] == "error":
                res["why"] = r["why"]
            else:
                cl = classify(ob, r["results"])
                res.update({"n": cl["n"], "ok": cl["ok"], "classes": cl["classes"], "internal": cl["internal"]})
                need = ob.get("expect_classes", [])
                missing = [c for c in need if not any(re.search(c, k) for k in cl["classes"])]
                real_fail = [x for x in cl["failed"] if not x.get("internal")]
                def violation():
                    res["status"] = "violation"
                    res["failed"] = cl["failed"]
                    fp = cl["failed"][0]["property"]     # counterexample for the first failed property
                    if ob.get("replay"):
                        tr, why = C.trace_for(ob, scratch, gb, fp, log)
                        res["cex"] = tr
                    res["cbmc_tail"] = [f for f in cl["failed"]][:10]
                if cl["unwind_failed"] and not real_fail:
                    res["why"] = "unwinding assertion failed: %s" % cl["unwind_failed"][:3]
                elif real_fail:
                    # a FAILURE of a real property is a reachable counterexample in its own right: it decides before vacuity / count checks
                    violation()
                elif not cl["canary_seen"] or not cl["canary_fired"]:
                    res["why"] = "vacuity canary did not fire (contradictory requires or call does not return)"
                elif cl["n"] < ob.get("expect_min", 1):
                    res["why"] = "only %d obligations generated, expected >= %d" % (cl["n"], ob.get("expect_min", 1))
                elif missing:
                    res["why"] = "expected obligation classes missing: %s" % missing
                elif cl["failed"]:
                    violation()
                else:
                    res["status"] = "ok"
        res["fired"] = fired
    except (C.ToolError, W.WeaveError, X.ExtractError, AS.AsmSizeError) as e:
        res["why"] = "%s: %s" % (type(e).__name__, e)
    except Exception as e:  # driver bug: undecided, never a violation
        res["why"] = "driver error: " + traceback.format_exc()[-1500:]
    res["wall"] = round(time.time() - t0, 2)
    if not keep:
        shutil.rmtree(scratch, ignore_errors=True)
    return res


def main():
    ap = argparse.ArgumentParser()
    ap.add_argument("pid")
    ap.add_argument("--tier", default=os.environ.get("VERIF_TIER", "quick"))
    ap.add_argument("--replay")
    ap.add_argument("--only")
    ap.add_argument("--keep", action="store_true")
    ap.add_argument("--list", action="store_true")
    ap.add_argument("--jobs", type=int, default=int(os.environ.get("RXV_JOBS", "0")) or (os.cpu_count() or 4))
    ap.add_argument("--no-evidence", action="store_true")
    ap.add_argument("--timeout", type=int, default=0, help="override every obligation's solver timeout (debugging)")
    a = ap.parse_args()
    tier = os.environ.get("VERIF_TIER") or a.tier
    if tier not in ("quick", "thorough", "attempt"):
        tier = "quick"
    seed = int(os.environ.get("VERIF_SEED", "0") or 0)
    pid = a.pid
    suite = load_suite(pid)
    suite_dir = os.path.join(VERIF, "suites", pid)
    if a.replay:
        sys.exit(R.replay_file(a.replay, pid, suite, suite_dir))
    # quick: the quick obligations; thorough: quick + thorough; attempt: only obligations kept out of both tiers because no
    # back end has finished them yet (never part of a registered command)
    want = {"quick": ("quick",), "thorough": ("quick", "thorough"), "attempt": ("attempt",)}[tier]
    obs = [o for o in suite.OBLIGATIONS if o.get("tier", "quick") in want]
    if a.only:
        obs = [o for o in suite.OBLIGATIONS if re.search(a.only, o["name"])]
    if a.list:
        for o in suite.OBLIGATIONS:
            print(o.get("tier", "quick"), o["name"], o.get("backend", "minisat"))
        return 0
    if a.timeout:
        obs = [dict(o, timeout=a.timeout) for o in obs]
    random.Random(seed).shuffle(obs)
    # heavy first
    obs.sort(key=lambda o: -o.get("weight", 1))
    root = tempfile.mkdtemp(prefix="rxv.%s." % pid)
    t0 = time.time()
    results = []
    try:
        with cf.ThreadPoolExecutor(max_workers=max(1, a.jobs)) as ex:
            futs = [ex.submit(run_obligation, o, pid, suite_dir, root, a.keep) for o in obs]
            for f in cf.as_completed(futs):
                r = f.result()
                results.append(r)
                sys.stderr.write("[%s] %-40s %-10s %6.1fs %s\n" % (pid, r["name"], r["status"], r["wall"],
                                                                  (r.get("why") or "")[:300].replace("\n", " ")))
                sys.stderr.flush()
    finally:
        if not a.keep:
            shutil.rmtree(root, ignore_errors=True)
        else:
            sys.stderr.write("scratch kept at %s\n" % root)
    results.sort(key=lambda r: r["name"])
    wall = time.time() - t0

    kf = known_findings()
    violations, known, undecided = [], [], []
    os.makedirs(os.path.join(VERIF, "out", "replay"), exist_ok=True)
    for r in results:
        if r["status"] == "violation":
            # known finding?
            fails = r.get("failed", [])
            unknown = []
            for f in fails:
                hit = None
                for k in kf["finding"]:
                    if k["property"] == pid and k["obligation"] == r["name"] and \
                            (k["site"] is None or k["site"] in (f.get("property", "") + " " + f.get("description", ""))):
                        hit = k
                if hit:
                    known.append((r, f, hit))
                else:
                    unknown.append(f)
            if unknown:
                r["failed"] = unknown
                violations.append(r)
        elif r["status"] != "ok":
            undecided.append(r)

    for r, f, k in known:
        print("KNOWN-FINDING: property=%s %s" % (pid, k["text"]))
    rc = 0
    for r in violations:
        ob = [o for o in suite.OBLIGATIONS if o["name"] == r["name"]][0]
        path, reproduced = R.make_replay(r, ob, pid, suite_dir)
        tail = "" if reproduced else " no-failing-input-found"
        f0 = r["failed"][0]
        sys.stderr.write("[%s] FAILED obligation %s :: %s :: %s (%s:%s)\n" % (
            pid, r["name"], f0.get("property"), f0.get("description"), f0.get("file"), f0.get("line")))
        print("VIOLATION property=%s replay=%s obligation=%s%s" % (pid, path, r["name"], tail))
        rc = 1
    if undecided and rc == 0:
        rc = 2
    for r in undecided:
        print("UNDECIDED property=%s obligation=%s reason=%s" % (pid, r["name"], (r.get("why") or "")[:400].replace("\n", " ")))

    if not a.no_evidence and not a.only and tier != "attempt":   # attempts are experiments, never evidence
        import evidence as E
        E.write(pid, suite, tier, seed, results, wall, len(violations), [k for _, _, k in known])
    print("%s tier=%s obligations=%d ok=%d violations=%d undecided=%d wall=%.1fs" % (
        pid, tier, len(results), sum(1 for r in results if r["status"] == "ok"), len(violations), len(undecided), wall))
    return rc


if __name__ == "__main__":
    sys.exit(main())
