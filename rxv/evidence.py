"""evidence/<id>.json writer (schema: /root/.vp/EVIDENCE.schema.json)"""
import json, os, re

HERE = os.path.dirname(os.path.abspath(__file__))
VERIF = os.path.dirname(HERE)


def scan_assumptions(suite_dir):
    """mechanical scan of harnesses/stubs/contracts for assume / uninterpreted / stub markers"""
    found = []
    dirs = [suite_dir, os.path.join(VERIF, "stubs")]
    for d in dirs:
        if not os.path.isdir(d):
            continue
        for fn in sorted(os.listdir(d)):
            if not fn.endswith((".c", ".h", ".cpp")):
                continue
            try:
                t = open(os.path.join(d, fn)).read()
            except Exception:
                continue
            for m in re.finditer(r"/\*\s*(TRUSTED|ASSUME|STUB|UF)\s*:\s*(.*?)\*/", t, re.S):
                found.append("%s[%s]: %s" % (fn, m.group(1), " ".join(m.group(2).split())))
            n = len(re.findall(r"__CPROVER_assume\s*\(", t))
            if n:
                found.append("%s: %d __CPROVER_assume call(s) (harness input constraints mirroring the enforced requires, or stub models)" % (fn, n))
    return found


def write(pid, suite, tier, seed, results, wall, nviol, known):
    proof = [r for r in results if not r.get("bounded") and r.get("kind") != "native"]
    other = [r for r in results if r.get("bounded") or r.get("kind") == "native"]
    n = sum(r.get("n", 0) for r in proof)
    ok = sum(r.get("ok", 0) for r in proof if r["status"] == "ok")
    funcs = sorted({r["enforce"] for r in results if r.get("enforce")})
    replaced = sorted({x for r in results for x in r.get("replace", [])})
    be = {}
    for r in results:
        be.setdefault(r.get("backend", "native"), 0.0)
        be[r.get("backend", "native")] += r.get("seconds", 0) or 0
    cmds = []
    for r in results[:1]:
        cmds = [l["cmd"] for l in r.get("log", [])]
    samples = []
    for r in results:
        samples.append({"obligation": r["name"], "status": r["status"], "backend": r.get("backend"),
                        "seconds": r.get("seconds"), "cbmc_properties": r.get("n"), "discharged": r.get("ok"),
                        "enforced_contract": r.get("enforce"), "calls_replaced_by_contract": r.get("replace"),
                        "obligation_classes": r.get("classes"), "bounded": r.get("bounded"),
                        "native_cases": r.get("cases"), "why": r.get("why")})
    suite_dir = os.path.join(VERIF, "suites", pid)
    level = getattr(suite, "LEVEL", "proof")
    cov = {
        "obligations": n,
        "discharged": ok,
        "checker_cmd": " ; ".join(cmds) if cmds else "goto-cc ; goto-instrument --dfcc ; cbmc",
        "trusted_base": list(getattr(suite, "TRUSTED", [])),
        "samples": samples,
        "contract_obligations_run": len(proof),
        "contract_obligations_ok": sum(1 for r in proof if r["status"] == "ok"),
        "functions_under_contract": funcs,
        "callee_contracts_used_in_place_of_bodies": replaced,
        "backend_seconds": {k: round(v, 1) for k, v in be.items()},
        "undecided": [r["name"] for r in results if r["status"] == "undecided"],
        "bounded_or_native_standins": [{"name": r["name"], "label": r.get("bounded") or "native enumeration",
                                        "status": r["status"], "cases": r.get("cases")} for r in other],
        "canaries_fired": sum(1 for r in proof if r["status"] in ("ok", "violation")),
        "extraction_rules_fired": sorted({x for r in results for x in r.get("fired", [])})[:200],
        "not_decided": list(getattr(suite, "NOT_DECIDED", [])),
        "known_findings_reported": [k["text"] for k in known],
        "explanation": getattr(suite, "EXPLANATION", ""),
    }
    doc = {
        "property_id": pid, "tier": tier, "seed": seed, "level": level, "coverage": cov,
        "assumptions": list(getattr(suite, "ASSUMPTIONS", [])) + scan_assumptions(suite_dir),
        "wall_s": round(wall, 2), "violations": nviol,
    }
    os.makedirs(os.path.join(VERIF, "evidence"), exist_ok=True)
    json.dump(doc, open(os.path.join(VERIF, "evidence", pid + ".json"), "w"), indent=1, default=str)
