"""goto-cc / goto-instrument / cbmc pipeline for one obligation, with pinned back ends,
resource limits, result parsing and counterexample extraction."""
import json, os, re, resource, shlex, subprocess, time

REPO = os.environ.get("RXV_REPO", "/repo")
VERIF = os.path.dirname(os.path.dirname(os.path.abspath(__file__)))

DEFAULT_CHECKS = ["--bounds-check", "--pointer-check", "--div-by-zero-check",
                  "--undefined-shift-check", "--signed-overflow-check",
                  "--pointer-overflow-check"]

BACKENDS = {
    "minisat": [],
    "cadical": ["--sat-solver", "cadical"],
    "kissat": ["--external-sat-solver", "kissat"],
    "z3": ["--z3"],
    "cvc5": ["--cvc5"],
}

# CBMC property classes that are part of the instrumentation, not of the code under proof
INTERNAL_PREFIXES = ("__CPROVER_contracts_", "__CPROVER_initialize", "__CPROVER__start")


class ToolError(Exception):
    """goto-cc / goto-instrument / cbmc failed for a reason other than a property failure."""


def _limits(mem_gb):
    def f():
        if mem_gb:      # 0 = no address-space limit (sanitizer builds reserve terabytes of virtual address space)
            b = int(mem_gb * (1 << 30))
            resource.setrlimit(resource.RLIMIT_AS, (b, b))
        os.setsid()
    return f


def run(cmd, cwd, timeout, mem_gb=8, env=None, log=None):
    t0 = time.time()
    e = dict(os.environ)
    e["TMPDIR"] = cwd
    if env:
        e.update(env)
    p = subprocess.Popen(cmd, cwd=cwd, stdout=subprocess.PIPE, stderr=subprocess.PIPE,
                         preexec_fn=_limits(mem_gb), env=e)
    try:
        out, err = p.communicate(timeout=timeout)
        to = False
    except subprocess.TimeoutExpired:
        try:
            os.killpg(p.pid, 9)
        except ProcessLookupError:
            pass
        out, err = p.communicate()
        to = True
    dt = time.time() - t0
    if log is not None:
        log.append({"cmd": " ".join(shlex.quote(c) for c in cmd), "rc": p.returncode, "s": round(dt, 2), "timeout": to})
    return p.returncode, out.decode("utf-8", "replace"), err.decode("utf-8", "replace"), to, dt


def compile_goto(ob, scratch, files, log):
    """goto-cc: files are absolute paths of C translation units."""
    out = os.path.join(scratch, "a.gb")
    cmd = ["goto-cc", "-o", out, "--function", ob["entry"], "-DRXV_CBMC=1"]
    for d in ob.get("defines", []):
        cmd.append("-D" + d)
    for u in ob.get("undefs", []):
        cmd.append("-U" + u)
    for i in ob["incdirs"]:
        cmd += ["-I", i]
    for i in ob.get("includes", []):
        cmd += ["-include", i]
    cmd += ob.get("cc_flags", [])
    cmd += files
    rc, so, se, to, dt = run(cmd, scratch, 300, 8, log=log)
    if rc != 0 or to:
        raise ToolError("goto-cc failed: " + (se or so)[-3000:])
    if re.search(r"ignoring (forall|exists)", se + so):
        raise ToolError("goto-cc dropped a quantifier")
    return out


def false_loops(gb, scratch, log):
    """ids of loops whose back edge is `IF 0 != 0 THEN GOTO` (the do { } while (0) of statement macros): such loops nest inside
    loops carrying contracts and must be unwound (once) before --apply-loop-contracts.  Loop numbers are the ordinal of the
    back edge inside its function; cross-checked against --show-loops, mismatch -> ToolError."""
    rc, so, se, to, dt = run(["goto-instrument", "--show-goto-functions", gb], scratch, 300, 8, log=None)
    if rc != 0 or to:
        raise ToolError("goto-instrument --show-goto-functions failed")
    rc2, so2, se2, to2, dt2 = run(["goto-instrument", "--show-loops", gb], scratch, 300, 8, log=None)
    listed = {}
    for m in re.finditer(r"^Loop ([\w$:.]+)\.(\d+):", so2, flags=re.M):
        listed[m.group(1)] = listed.get(m.group(1), 0) + 1
    ids, fn, labels, n = [], None, set(), 0
    counts = {}
    for line in so.splitlines():
        m = re.match(r"^([\w$:.]+) /\* ([\w$:.]+) \*/$", line)
        if m:
            fn, labels, n = m.group(2), set(), 0
            continue
        if fn is None:
            continue
        m = re.match(r"^\s+(\d+): ", line)
        if m:
            labels.add(m.group(1))
        m = re.search(r"(?:IF (.*) THEN )?GOTO (\d+)\s*$", line)
        if m and m.group(2) in labels:      # backward jump = loop back edge
            if m.group(1) is not None and re.fullmatch(r"0 (?:≠|!=) 0", m.group(1).strip()):
                ids.append("%s.%d" % (fn, n))
            n += 1
            counts[fn] = n
    for f, k in listed.items():
        if counts.get(f, 0) != k:
            raise ToolError("loop numbering cross-check failed for %s: %d back edges vs %d loops listed" % (f, counts.get(f, 0), k))
    return ids


def instrument(ob, scratch, gb, log):
    cur = gb
    step = 0
    if ob.get("unwind_false_loops"):
        ids = false_loops(cur, scratch, log)
        if ids:
            ob = dict(ob)
            ob["pre_unwindset"] = list(ob.get("pre_unwindset", [])) + [i + ":1" for i in ids]
    if ob.get("pre_unwindset"):
        nxt = os.path.join(scratch, "u.gb")
        cmd = ["goto-instrument", "--unwindset", ",".join(ob["pre_unwindset"]), "--unwinding-assertions", cur, nxt]
        rc, so, se, to, dt = run(cmd, scratch, 300, 8, log=log)
        if rc != 0 or to:
            raise ToolError("goto-instrument --unwindset failed: " + (se or so)[-3000:])
        cur = nxt
    if ob.get("enforce") or ob.get("replace") or ob.get("loop_contracts"):
        nxt = os.path.join(scratch, "b.gb")
        cmd = ["goto-instrument", "--dfcc", ob["entry"]]
        if ob.get("enforce"):
            cmd += ["--enforce-contract", ob["enforce"]]
        for r in ob.get("replace", []):
            cmd += ["--replace-call-with-contract", r]
        if ob.get("loop_contracts"):
            cmd += ["--apply-loop-contracts"]
        cmd += ob.get("instrument_flags", [])
        cmd += [cur, nxt]
        rc, so, se, to, dt = run(cmd, scratch, 600, 8, log=log)
        if rc != 0 or to:
            raise ToolError("goto-instrument --dfcc failed: " + (se + so)[-3000:])
        cur = nxt
    return cur


def _cbmc_cmd(ob, gb, extra):
    cmd = ["cbmc", gb, "--json-ui", "--verbosity", "6"]
    cmd += ob.get("checks", DEFAULT_CHECKS)
    cmd += ob.get("cbmc_flags", [])
    if ob.get("unwindset"):
        cmd += ["--unwindset", ",".join(ob["unwindset"]), "--unwinding-assertions"]
    if ob.get("unwind"):
        cmd += ["--unwind", str(ob["unwind"]), "--unwinding-assertions"]
    cmd += BACKENDS[ob.get("backend", "minisat")]
    cmd += extra
    return cmd


def parse_results(text):
    """returns (results list, status, messages) from cbmc --json-ui output"""
    try:
        data = json.loads(text)
    except Exception:
        # truncated output (timeout / memory): salvage nothing
        return None, None, []
    results, status, msgs = None, None, []
    for x in data:
        if not isinstance(x, dict):
            continue
        if "result" in x:
            results = x["result"]
        if "cProverStatus" in x:
            status = x["cProverStatus"]
        if x.get("messageType") in ("ERROR", "WARNING"):
            msgs.append(x.get("messageText", ""))
    return results, status, msgs


def check(ob, scratch, gb, log):
    cmd = _cbmc_cmd(ob, gb, [])
    rc, so, se, to, dt = run(cmd, scratch, ob.get("timeout", 900), ob.get("mem_gb", 8), log=log)
    if to:
        return {"status": "timeout", "seconds": dt}
    results, status, msgs = parse_results(so)
    if results is None:
        why = "; ".join(msgs)[-2000:] or (se or so)[-2000:]
        return {"status": "error", "seconds": dt, "why": "cbmc gave no result list (rc=%s): %s" % (rc, why)}
    # only SUCCESS and FAILURE are verdicts; ERROR / UNKNOWN (solver gave up on that property) decide nothing.  A FAILURE of a
    # property other than the vacuity canary is a counterexample in its own right (cbmc leaves later properties UNKNOWN once
    # checks on the same path have failed): the run is then classified normally, with the undetermined properties ignored.
    undetermined = [r for r in results if r.get("status") not in ("SUCCESS", "FAILURE")]
    real_failure = any(r.get("status") == "FAILURE" and not (r.get("description") or "").startswith("canary") for r in results)
    if any("out of memory" in m for m in msgs) or (undetermined and not real_failure):
        return {"status": "error", "seconds": dt, "why": "solver ran out of memory / returned ERROR or UNKNOWN for some properties"}
    if undetermined:
        results = [r for r in results if r.get("status") in ("SUCCESS", "FAILURE")]
    for m in msgs:
        if re.search(r"ignoring (forall|exists)", m):
            return {"status": "error", "seconds": dt, "why": "quantifier dropped by back end: " + m}
    return {"status": "done", "seconds": dt, "results": results, "messages": msgs}


def trace_for(ob, scratch, gb, prop, log):
    """re-run for one failed property with a trace; returns (assignments dict lhs->value, raw tail)"""
    cmd = _cbmc_cmd(ob, gb, ["--trace", "--property", prop])
    rc, so, se, to, dt = run(cmd, scratch, ob.get("timeout", 900), ob.get("mem_gb", 8), log=log)
    if to:
        return None, "trace run timed out"
    try:
        data = json.loads(so)
    except Exception:
        return None, so[-2000:]
    assigns = {}
    order = []
    for x in data:
        if isinstance(x, dict) and "result" in x:
            for r in x["result"]:
                if r.get("property") == prop and "trace" in r:
                    for st in r["trace"]:
                        if st.get("stepType") != "assignment" or st.get("hidden"):
                            continue
                        fn = (st.get("sourceLocation") or {}).get("function")
                        lhs = st.get("lhs")
                        caps = (ob.get("replay") or {}).get("capture")
                        if caps:
                            # configured capture: regexes on the lhs (any function); key = group(1) if present
                            key = None
                            for c in caps:
                                cm = re.search(c, lhs or "")
                                if cm:
                                    key = cm.group(1) if cm.groups() else lhs
                                    break
                            if key is None:
                                continue
                            lhs = key
                        elif fn != ob["entry"]:
                            continue
                        v = st.get("value", {})
                        if lhs is None:
                            continue
                        val = _flat(v)
                        if val is None:
                            continue
                        if lhs not in assigns:
                            order.append(lhs)
                        # keep the first assignment of every harness variable (its nondet input value)
                        assigns.setdefault(lhs, val)
    return {k: assigns[k] for k in order}, ""


def _flat(v):
    if not isinstance(v, dict):
        return None
    if "binary" in v and v.get("name") in ("integer", "pointer", "float"):
        b = v["binary"]
        try:
            return int(b, 2)
        except Exception:
            return None
    if "data" in v and v.get("name") == "integer":
        try:
            return int(v["data"])
        except Exception:
            return None
    if v.get("name") == "boolean":
        return 1 if v.get("data") in (True, "true", "TRUE") else 0
    return None
