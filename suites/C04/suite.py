import os, sys
sys.path.insert(0, os.path.join(os.path.dirname(os.path.abspath(__file__)), "..", "common"))
import cxx_specs as XS

PROPERTY = "C04"
LEVEL = "proof"
EXPLANATION = ('Translation validation per instruction: for every instruction kind and every (dst, src) register pair, with opcode, mod, immediate, register file, scratchpad contents and branch state symbolic, the bytes the real emitter writes - decoded and executed by an x86-64 subset semantics written from the SDM - produce the register file, scratchpad write and control transfer that the specification prescribes for the decoded instruction, and advance codePos by the number of bytes written (at most 32).')
TRUSTED = ["suites/common/spec_x86.h: x86-64 subset semantics (Intel SDM) for the emitted instruction forms",
           "static assembly: prologue, loop load/store, dataset read, AES mix, epilogue, xmm13-15 constants (jit_compiler_x86_static.S, asm/*.inc)",
           "a real CPU executes the bytes as the SDM says; whole-program equivalence is the composition of the per-instruction facts (meta-step)",
           "interpreter == spec_step is imported from suite C05"]
ASSUMPTIONS = []
NOT_DECIDED = ["whole-program equivalence as a single obligation; memory accesses performed by the static assembly"]
INC = ["@suites/common"]
KINDS = ["IADD_RS", "IADD_M", "ISUB_R", "ISUB_M", "IMUL_R", "IMUL_M", "IMULH_R", "IMULH_M", "ISMULH_R", "ISMULH_M",
         "IMUL_RCP", "INEG_R", "IXOR_R", "IXOR_M", "IROR_R", "IROL_R", "ISWAP_R", "FSWAP_R", "FADD_R", "FADD_M", "FSUB_R",
         "FSUB_M", "FSCAL_R", "FMUL_R", "FDIV_M", "FSQRT_R", "CBRANCH", "CFROUND", "ISTORE"]

QUICK_KINDS = ["INEG_R", "FSWAP_R", "FSCAL_R", "IXOR_R", "ISWAP_R", "ISUB_R", "ISTORE"]


# rotations by a register amount: MiniSat's run time on these varies between 80 s and > 1800 s for the same query
ROT_BACKEND = {"IROR_R": "kissat", "IROL_R": "kissat"}


def ob(k, dst=None):
    return {"backend": ROT_BACKEND.get(k, "minisat"), "name": "jit_" + k + ("" if dst is None else "_dst%d" % dst), "tier": "quick" if dst is None else "thorough",
            "files": [XS.JIT_SIZES, {"cxx": XS.JIT_EMIT, "out": "je.c", "header": True}, "harness_jit_equiv.c"],
            "incdirs": INC, "defines": ['RXV_CONTRACTS_H="decls_jit.h"', "KIND=S_" + k, "KNAME=" + k] + ([] if dst is None else ["DST_ONLY=%d" % dst]),
            "entry": "h_jit", "unwind": 100, "cbmc_flags": ["--object-bits", "10", "--max-field-sensitivity-array-size", "128"],
            "checks": ["--bounds-check", "--pointer-check", "--div-by-zero-check", "--undefined-shift-check", "--signed-overflow-check"],
            "expect_classes": ["assertion"], "expect_min": 15, "timeout": 1800, "weight": 2}


# quick: the kinds whose complete 64-pair enumeration is cheap; thorough: every kind, one obligation per destination register
def rcp(dst, expect):
    o = ob("IMUL_RCP", dst)
    o["name"] += "_multiply" if expect else "_noop"
    o["files"] = [XS.JIT_SIZES, {"cxx": XS.JIT_EMIT_RCP, "out": "je.c", "header": True}, "harness_jit_equiv.c"]
    o["defines"] = o["defines"] + ["RCP_EXPECT=%d" % expect]
    return o


def cfround(src):
    o = ob("CFROUND", 0)
    o["name"] = "jit_CFROUND_src%d" % src
    o["defines"] = o["defines"] + ["SRC_ONLY=%d" % src]
    o["mem_gb"] = 16
    return o


# CFROUND has no destination register: one obligation over all 8 sources (needs more memory than the default 8 GB)
OBLIGATIONS = [ob(k) for k in QUICK_KINDS] + [ob(k, d) for k in KINDS if k not in QUICK_KINDS and k not in ("IMUL_RCP", "CFROUND") for d in range(8)] + \
              [cfround(s) for s in range(8)] + \
              [rcp(d, e) for d in range(8) for e in (0, 1)]
# one IMUL_RCP case pair also in the quick tier (the no-op rule is property C18's second half)
for o in OBLIGATIONS:
    if o["name"] in ("jit_IMUL_RCP_dst3_noop", "jit_IMUL_RCP_dst3_multiply"):
        o["tier"] = "quick"

