uint64_t randomx_reciprocal_fast(uint32_t d);
int32_t rxv_vec_at_i32(rxv_vector v, int k);
