/* C04: for instruction kind KIND and EVERY instruction word, register state, last-writer table and version:
   the bytes the real emitter JitCompilerX86::h_<KIND> (jit_compiler_x86.cpp, extracted) writes, run through the x86-64
   subset semantics (spec_x86.h, trusted), have exactly the effect doc/specs.md ch.5 prescribes (spec_isa.h spec_step) on
   r0-r7, f/e registers, the scratchpad (address and value of a store; addresses of loads through the shared abstract
   memory), the rounding mode, and the branch decision/target - which is also the effect of the bytecode interpreter
   (suite C05 proves interpreter == spec_step), hence JIT == interpreter per instruction.  Also: at most 32 bytes are
   emitted, only [codePos, codePos') is written, and the JIT's last-writer table is updated as the interpreter's. */
#include <stdint.h>
#include "contracts_mem.h"
#define SPEC_LOAD64(sp, addr) __CPROVER_uninterpreted_mem64(addr)
#define SPEC_LOAD32(sp, addr) __CPROVER_uninterpreted_mem32(addr)
#define SPEC_SQRT(x) __CPROVER_uninterpreted_fsqrt(x, __CPROVER_rounding_mode)
#define SPEC_FADD(a, b) __CPROVER_uninterpreted_fadd(a, b, __CPROVER_rounding_mode)
#define SPEC_FSUB(a, b) __CPROVER_uninterpreted_fsub(a, b, __CPROVER_rounding_mode)
#define SPEC_FMUL(a, b) __CPROVER_uninterpreted_fmul(a, b, __CPROVER_rounding_mode)
#define SPEC_FDIV(a, b) __CPROVER_uninterpreted_fdiv(a, b, __CPROVER_rounding_mode)
#define SPEC_MUL64(a, b) __CPROVER_uninterpreted_mul64(a, b)
#define SPEC_MULH(a, b) __CPROVER_uninterpreted_mulh(a, b)
#define SPEC_SMULH(a, b) ((uint64_t)__CPROVER_uninterpreted_smulh((int64_t)(a), (int64_t)(b)))
#define SPEC_RCP(d) __CPROVER_uninterpreted_rcp(d)
double __CPROVER_uninterpreted_fadd(double, double, int); double __CPROVER_uninterpreted_fsub(double, double, int);
double __CPROVER_uninterpreted_fmul(double, double, int); double __CPROVER_uninterpreted_fdiv(double, double, int);
double __CPROVER_uninterpreted_fsqrt(double, int);
uint64_t __CPROVER_uninterpreted_mul64(uint64_t, uint64_t); uint64_t __CPROVER_uninterpreted_mulh(uint64_t, uint64_t);
int64_t __CPROVER_uninterpreted_smulh(int64_t, int64_t); uint64_t __CPROVER_uninterpreted_rcp(uint32_t);
#ifdef RCP_EXPECT
static inline _Bool rxv_rcp_cond(_Bool c) { __CPROVER_assert(c == RCP_EXPECT, "IMUL_RCP: emitter takes the branch of the assumed case"); return RCP_EXPECT; }
#define RXV_RCP_COND(c) rxv_rcp_cond(c)
#endif
#include "jit_sizes.h"
#include <stddef.h>
/* byte-wise memcpy for the emitters' small copies: keeps every other byte of the code buffer a constant for symbolic
   execution (CBMC's built-in turns the buffer into one byte_update expression as soon as a symbolic immediate is stored) */
void* memcpy(void* dst, const void* src, size_t n) { for (size_t k = 0; k < n; k++) ((unsigned char*)dst)[k] = ((const unsigned char*)src)[k]; return dst; }
#include "je.c"
#include "spec_x86.h"
#ifndef KIND
#error KIND
#endif
/* contract of randomx_reciprocal_fast (assembly; C18 enumeration): same value as randomx_reciprocal */
uint64_t randomx_reciprocal_fast(uint32_t d) { __CPROVER_assert(d != 0 && (d & (d - 1)) != 0, "reciprocal precondition"); return __CPROVER_uninterpreted_rcp(d); }
int32_t rxv_vec_at_i32(rxv_vector v, int k) { __CPROVER_assert(k >= 0 && (size_t)k < v.size, "instructionOffsets index in range"); return ((int32_t*)v.data)[k]; }
uint8_t nondet_u8(void); uint32_t nondet_u32(void); uint64_t nondet_u64(void); int nondet_int(void); double nondet_double(void);
uint8_t* rxv_sp; int rxv_store_count; __CPROVER_size_t rxv_store_off; uint64_t rxv_store_val; unsigned rxv_fprc;
#define EMIT(K) JitCompilerX86_h_##K
#define EMIT2(K) EMIT(K)
#define KNAME_IADD_RS 0
static uint8_t code[96]; static int32_t offs[385];
/* one (dst, src) register pair: with both concrete the layout of the emitted bytes is concrete too, which keeps the
   symbolic decoding in x86_run small; h_jit runs all 64 pairs (a complete case split, no bound) */
static void one_case(uint8_t opcode, uint8_t d, uint8_t s, uint8_t mod, uint32_t imm32, int i, randomx_flags flags,
		const int ru0[8], int32_t target_off, const x86_state* x0, const spec_state* st0, const unsigned m4[2], const uint32_t frac22[2]) {
	Instruction instr; instr.opcode = opcode; instr.dst = d; instr.src = s; instr.mod = mod; instr.imm32 = imm32;
	struct JitCompilerX86 jit;
	for (int k = 0; k < 96; k++) code[k] = 0xCC;
	jit.code = code; jit.codePos = 32; jit.vmFlags = flags;
	jit.instructionOffsets.data = offs; jit.instructionOffsets.size = (size_t)i + 1;
	for (int k = 0; k < 8; k++) jit.registerUsage[k] = ru0[k];
	const int lw = ru0[d];
	offs[(lw + 1) % 385] = target_off;
	x86_state x = *x0; spec_state st = *st0;

	EMIT2(KNAME)(&jit, &instr, i);                                 /* the real emitter */
	const int len = jit.codePos - 32;
	__CPROVER_assert(len >= 0 && len <= 32, "C06: an instruction emits at most 32 bytes of code");
	for (int k = 0; k < 32; k++) __CPROVER_assert(code[k] == 0xCC, "C06: code before codePos is not clobbered");
	for (int k = 64; k < 96; k++) __CPROVER_assert(code[k] == 0xCC, "C06: nothing beyond the 32-byte slot is written");
	for (int k = 0; k < 8; k++)
		__CPROVER_assert(jit.registerUsage[k] == (spec_modifies(KIND, d, s, imm32, k) ? i : ru0[k]), "C07/C18: JIT last-writer table updated as specified");

	x86_run(&x, code + 32, len);                                   /* what the bytes do */
	__CPROVER_assert(x.fault == 0, "every emitted byte decodes (x86 subset)");
	spec_step_k(&st, (const uint8_t*)0, KIND, d, s, mod, imm32, lw, (flags & RANDOMX_FLAG_V2) != 0, m4, frac22);   /* what the specification says */

	for (int k = 0; k < 8; k++) __CPROVER_assert(x.gpr[8 + k] == st.r[k], "integer registers equal specification");
	for (int k = 0; k < 4; k++) {
		__CPROVER_assert(spec_d2u(x.xmm[k].lo) == spec_d2u(st.f[k].lo) && spec_d2u(x.xmm[k].hi) == spec_d2u(st.f[k].hi), "group F equals specification");
		__CPROVER_assert(spec_d2u(x.xmm[4 + k].lo) == spec_d2u(st.e[k].lo) && spec_d2u(x.xmm[4 + k].hi) == spec_d2u(st.e[k].hi), "group E equals specification");
		__CPROVER_assert(spec_d2u(x.xmm[8 + k].lo) == spec_d2u(st.a[k].lo) && spec_d2u(x.xmm[8 + k].hi) == spec_d2u(st.a[k].hi), "group A unchanged");
	}
	__CPROVER_assert(x.gpr[X_RSI] == 0 && x.gpr[X_RSP] == x0->gpr[X_RSP] && x.gpr[X_RBX] == x0->gpr[X_RBX] && x.gpr[X_RBP] == x0->gpr[X_RBP] && x.gpr[X_RDI] == x0->gpr[X_RDI],
		"scratchpad base, stack pointer, loop counter, memory registers and dataset pointer preserved");
	__CPROVER_assert(x.mxcsr == (0x9FC0u | (st.fprc << 13)), "rounding mode / control word equals specification");
	__CPROVER_assert(x.stored == st.stored && (!st.stored || (x.store_addr == st.store_addr && x.store_val == st.store_val)), "store: same address, same value");
	__CPROVER_assert(x.jumped == (st.pc != i), "branch taken exactly when the specification jumps");
	__CPROVER_assert(!x.jumped || (32 + x.jump_at + x.jump_rel == target_off), "branch lands on the code offset of the instruction after the last writer");
}

void h_jit(void) {
	uint8_t opcode = nondet_u8(), mod = nondet_u8(); uint32_t imm32 = nondet_u32();
	/* generateProgramPrologue normalises dst and src modulo 8 before calling the emitter */
	__CPROVER_assume(spec_kind_of(opcode) == KIND);
#ifdef RCP_EXPECT
	__CPROVER_assume(spec_zero_or_pow2(imm32) == !RCP_EXPECT);
#endif
	int i = nondet_int(); __CPROVER_assume(0 <= i && i < 384);
	randomx_flags flags = (randomx_flags)(nondet_int() & (RANDOMX_FLAG_V2 | RANDOMX_FLAG_HARD_AES));
	int ru0[8];
	for (int k = 0; k < 8; k++) { int u = nondet_int(); __CPROVER_assume(-1 <= u && u < i); ru0[k] = u; }
	const int32_t target_off = nondet_int(); __CPROVER_assume(0 <= target_off && target_off < 65536);   /* a code offset inside the buffer */
	x86_state x; spec_state st;
	for (int k = 0; k < 16; k++) x.gpr[k] = nondet_u64();
	x.gpr[X_RSI] = 0;                                              /* scratchpad base: addresses are offsets */
	for (int k = 0; k < 8; k++) st.r[k] = x.gpr[8 + k];
	for (int k = 0; k < 16; k++) { x.xmm[k].lo = nondet_double(); x.xmm[k].hi = nondet_double(); }
	unsigned m4[2]; uint32_t frac22[2];
	for (int k = 0; k < 2; k++) { m4[k] = nondet_u8() & 15; frac22[k] = nondet_u32() & 0x3fffff; }
	x.xmm[13].lo = spec_u2d(0x00ffffffffffffffULL); x.xmm[13].hi = x.xmm[13].lo;             /* E 'and' mask (program_xmm_constants.inc) */
	x.xmm[14].lo = spec_u2d((uint64_t)frac22[0] | ((0x300ULL | ((uint64_t)m4[0] << 4)) << 52));   /* E 'or' mask = eMask (C02-1) */
	x.xmm[14].hi = spec_u2d((uint64_t)frac22[1] | ((0x300ULL | ((uint64_t)m4[1] << 4)) << 52));
	x.xmm[15].lo = spec_u2d(0x80F0000000000000ULL); x.xmm[15].hi = x.xmm[15].lo;             /* scale mask */
	for (int k = 0; k < 4; k++) { st.f[k].lo = x.xmm[k].lo; st.f[k].hi = x.xmm[k].hi; st.e[k].lo = x.xmm[4 + k].lo; st.e[k].hi = x.xmm[4 + k].hi;
		st.a[k].lo = x.xmm[8 + k].lo; st.a[k].hi = x.xmm[8 + k].hi; }
	unsigned mode = nondet_u8() & 3;
	x.mxcsr = 0x9FC0u | (mode << 13); st.fprc = mode; x.stack_slot = nondet_u32(); x.zf = 0;
	__CPROVER_rounding_mode = nondet_int(); __CPROVER_assume(0 <= __CPROVER_rounding_mode && __CPROVER_rounding_mode < 4);
	st.pc = i; st.stored = 0;
#ifdef FIX_D
	one_case(opcode, FIX_D, FIX_S, mod, imm32, i, flags, ru0, target_off, &x, &st, m4, frac22);
#else
	/* complete enumeration of the 64 (dst, src) pairs; every other input stays symbolic in every case */
#if defined(SRC_ONLY)
	/* instruction without destination register (CFROUND): one obligation per source register, destination field symbolic */
	one_case(opcode, nondet_u8() & 7, SRC_ONLY, mod, imm32, i, flags, ru0, target_off, &x, &st, m4, frac22);
#elif defined(DST_ONLY)
	for (uint8_t s = 0; s < 8; s++) one_case(opcode, DST_ONLY, s, mod, imm32, i, flags, ru0, target_off, &x, &st, m4, frac22);
#else
	for (uint8_t d = 0; d < 8; d++) for (uint8_t s = 0; s < 8; s++)
		one_case(opcode, d, s, mod, imm32, i, flags, ru0, target_off, &x, &st, m4, frac22);
#endif
#endif
	__CPROVER_assert(0, "canary");
}
