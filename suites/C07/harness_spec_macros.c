/* the call-free macro forms used in loop invariants agree with the specification functions for all inputs */
#include "spec_isa.h"
uint8_t nondet_u8(void); uint32_t nondet_u32(void); int nondet_int(void);
void h_spec_macros(void) {
	uint8_t op = nondet_u8(), dst = nondet_u8(), src = nondet_u8(); uint32_t imm = nondet_u32(); int R = nondet_int();
	__CPROVER_assume(0 <= R && R < 8);
	__CPROVER_assert(SPEC_ZP2_X(imm) == spec_zero_or_pow2(imm), "zero-or-power-of-two macro");
	__CPROVER_assert(SPEC_IS_CBRANCH_X(op) == (spec_kind_of(op) == S_CBRANCH), "CBRANCH opcode range macro");
	__CPROVER_assert((SPEC_MODIFIES_X(op, dst, src, imm, R) != 0) == spec_modifies(spec_kind_of(op), dst, src, imm, R), "modifies macro");
	int sum = 0; for (int k = 0; k < S_KINDS; k++) sum += spec_freq[k];
	__CPROVER_assert(sum == 256, "frequencies sum to 256");
	__CPROVER_assert(0, "canary");
}
