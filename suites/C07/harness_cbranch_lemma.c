/* C07-1: the real decoder's branch constant and mask, executed by the real exe_CBRANCH three times in a row on an
   arbitrary register value, cannot be taken three times (doc/specs.md 5.4.2: bit b set, bit b-1 clear).
   Loop-free, full domain: 2^64 register values x 2^32 immediates x 16 conditions x all last-writer tables. */
#include "bm.c"
#include "spec_isa.h"
uint8_t nondet_u8(void); uint32_t nondet_u32(void); uint64_t nondet_u64(void); int nondet_int(void);
void h_cbranch3(void) {
	Instruction instr;
	instr.opcode = nondet_u8(); instr.dst = nondet_u8(); instr.src = nondet_u8(); instr.mod = nondet_u8(); instr.imm32 = nondet_u32();
	__CPROVER_assume(spec_kind_of(instr.opcode) == S_CBRANCH);
	int i = nondet_int();
	__CPROVER_assume(0 <= i && i < 32768);
	NativeRegisterFile nreg;
	struct BytecodeMachine bm;
	bm.nreg = &nreg;
	for (int k = 0; k < 8; k++) { int u = nondet_int(); __CPROVER_assume(-1 <= u && u < i); bm.registerUsage[k] = u; nreg.r[k] = nondet_u64(); }
	InstructionByteCode ibc;
	BytecodeMachine_compileInstruction(&bm, &instr, i, &ibc);      /* real body */
	__CPROVER_assert(ibc.type == InstructionType_CBRANCH, "decoded as CBRANCH");
	ibc.type = InstructionType_CBRANCH;   /* identity (just asserted): lets symbolic execution specialise the dispatch switch */
	uint8_t sp[8];
	ProgramConfiguration config;
	randomx_flags flags = nondet_int();
	int taken = 0;
	for (int k = 0; k < 3; k++) {
		int pc = 100000;                                           /* not a possible target (targets are < 32768) */
		BytecodeMachine_executeInstruction(&ibc, &pc, sp, &config, flags);   /* real body */
		if (pc != 100000) { taken++; __CPROVER_assert(-1 <= pc && pc < i, "branch target is -1 or an earlier slot"); }
	}
	__CPROVER_assert(taken < 3, "a conditional branch is taken at most twice in a row");
	/* the same fact for the specification's own constant (independent of the code) */
	uint64_t d = nondet_u64(), c = spec_cimm(instr.imm32, instr.mod), m = spec_cbranch_mask(instr.mod);
	__CPROVER_assert(!(((d + c) & m) == 0 && ((d + 2 * c) & m) == 0 && ((d + 3 * c) & m) == 0), "specification constant: at most twice");
	__CPROVER_assert(0, "canary");
}
