/* C07-3: loop contract of the real compileProgram loop; compileInstruction replaced by its contract */
#include "bm.c"
unsigned rxv_pj, rxv_pc;
unsigned nondet_unsigned(void); int nondet_int(void);
void h_compile_program(void) {
	struct BytecodeMachine* self; Program* program; InstructionByteCode* bytecode; NativeRegisterFile* regFile;
	randomx_flags flags = nondet_int();
	rxv_pj = nondet_unsigned(); rxv_pc = nondet_unsigned();
	BytecodeMachine_compileProgram(self, program, bytecode, regFile, flags);
	__CPROVER_assert(0, "canary");
}
