import os, sys
sys.path.insert(0, os.path.join(os.path.dirname(os.path.abspath(__file__)), "..", "common"))
import cxx_specs as S

PROPERTY = "C07"
LEVEL = "proof"
EXPLANATION = ('Proof of the termination argument: for every register value, immediate and condition shift a CBRANCH cannot be taken three times in a row (arithmetic fact over all 2^64 x 2^32 x 16 cases); compileProgram maintains the last-writer table so that a branch target is the instruction after the last writer of the branch register, a branch marks all registers written, and the loop body of a branch contains neither a writer of its register nor another branch (loop contract over all program lengths).')
TRUSTED = ["suites/common/spec_isa.h (oracle for the last-writer rule and the branch constant, doc/specs.md 5.4.2)",
           "C++ -> C extraction rules of rxv/cxx2c.py"]
ASSUMPTIONS = []
NOT_DECIDED = []
INC = ["@suites/common"]
BM_SRC = {"cxx": S.BM, "out": "bm.c", "header": True}
BM_SRC_LOOP = {"cxx": S.BM, "out": "bm.c", "header": True,
               "loops": [{"function": "BytecodeMachine_compileProgram", "expect_loops": 1,
                          "loops": {"0": "RXV_COMPILE_PROGRAM_LOOP_INVARIANT"}},
                         {"function": "BytecodeMachine_beginCompilation", "expect_loops": 1,
                          "loops": {"0": "RXV_BEGIN_COMPILATION_LOOP_INVARIANT"}}]}

OBLIGATIONS = [
    {
        "name": "compile_program_loop",
        "files": [BM_SRC_LOOP, "harness_compile_program.c"],
        "incdirs": INC,
        "defines": ['RXV_CONTRACTS_H="contracts_bm_prog.h"'],
        "entry": "h_compile_program",
        "enforce": "BytecodeMachine_compileProgram",
        "replace": ["BytecodeMachine_compileInstruction/rxv_compileInstruction_lw"],
        "loop_contracts": True,
        "cbmc_flags": ["--arrays-uf-always"],
        "expect_classes": ["postcondition", "loop_invariant_base", "loop_invariant_step", "loop_decreases|decreases"],
        "expect_min": 30,
        "timeout": 900,
    },
    {
        "name": "cbranch_at_most_twice",
        "files": [BM_SRC, "harness_cbranch_lemma.c"],
        "incdirs": INC, "entry": "h_cbranch3",
        "unwindset": ["h_cbranch3.0:9", "h_cbranch3.1:4", "spec_kind_of.0:31", "spec_zero_or_pow2.0:33", "BytecodeMachine_compileInstruction.0:9"],
        "expect_classes": ["assertion"], "expect_min": 10,
    },
    {
        "name": "spec_macros_agree",
        "files": ["harness_spec_macros.c"],
        "incdirs": INC, "entry": "h_spec_macros",
        "unwindset": ["h_spec_macros.0:31", "spec_kind_of.0:31", "spec_zero_or_pow2.0:33"],
        "expect_classes": ["assertion"], "expect_min": 4,
    },
    {
        "name": "last_writer_slim_contract",
        "files": [BM_SRC, "@suites/C05/harness_decode.c"],
        "incdirs": INC,
        "defines": ['RXV_CONTRACTS_H="contracts_bm.h"'],
        "entry": "h_decode",
        "enforce": "BytecodeMachine_compileInstruction/rxv_compileInstruction_lw",
        "replace": ["randomx_reciprocal"],
        "expect_classes": ["postcondition", "assigns"],
        "expect_min": 100,
    },
    {
        "name": "last_writer_contract",
        "files": [BM_SRC, "@suites/C05/harness_decode.c"],
        "incdirs": INC,
        "defines": ['RXV_CONTRACTS_H="contracts_bm.h"'],
        "entry": "h_decode",
        "enforce": "BytecodeMachine_compileInstruction",
        "replace": ["randomx_reciprocal"],
        "expect_classes": ["postcondition", "assigns"],
        "expect_min": 100,
        "replay": {"prog": "@suites/C05/replay_decode.cpp", "sources": ["src/bytecode_machine.cpp", "src/reciprocal.c", "src/instructions_portable.cpp"],
                   "flags": ["-O1", "-I/verif/suites/common"],
                   "capture": [r"dynamic_object\$\d+\.(opcode|dst|src|mod|imm32)$", r"dynamic_object\$\d+\.(registerUsage\[\d\])l?$", r"^(i)$"]},
    },
]
