/* Contracts for the Argon2d fill (property C10).  Real code: src/argon2_core.c, src/argon2_ref.c, src/argon2_ssse3.c,
   src/argon2_avx2.c (compiled unmodified; loop contracts woven in, nothing else changed). */
#ifndef RXV_CONTRACTS_ARGON2_H
#define RXV_CONTRACTS_ARGON2_H
#include <stdint.h>
#include <stddef.h>
#include "argon2.h"
#include "argon2_core.h"
#include "spec_argon2.h"

/* ---- ghost state of one fill_segment call (set by the harness before the call) ---- */
extern const argon2_instance_t* g_inst;
extern uint32_t g_pass, g_lane, g_slice, g_start;   /* position at entry; first index of the segment that is filled */
extern uint32_t g_calls, g_fills;                   /* index_alpha calls / fill_block calls so far */
extern uint32_t g_idx, g_ref, g_j1; extern int g_same; /* arguments and result of the latest index_alpha call */
extern unsigned g_k;                                /* ghost probe: one arbitrary word index of a block (< 128) */
extern uint32_t g_a; extern uint64_t g_old;         /* ghost probe: one arbitrary block of the memory and its word g_k at entry */
#define G_Q (g_inst->lane_length)
#define G_SL (g_inst->segment_length)
#define G_CUR (g_lane * G_Q + g_slice * G_SL + g_idx)   /* absolute index of the block under construction */

/* ghost arrays of one fill_block call: the staged RFC 9106 computation (spec_stages) for its input blocks */
extern uint64_t g_Q0[128], g_Q1[128], g_Q2[128], g_T[128];
#define RXV_R8(M, b) (M((b) + 0) && M((b) + 1) && M((b) + 2) && M((b) + 3) && M((b) + 4) && M((b) + 5) && M((b) + 6) && M((b) + 7))
#define RXV_R128(M) (RXV_R8(M, 0) && RXV_R8(M, 8) && RXV_R8(M, 16) && RXV_R8(M, 24) && RXV_R8(M, 32) && RXV_R8(M, 40) && RXV_R8(M, 48) && RXV_R8(M, 56) && \
	RXV_R8(M, 64) && RXV_R8(M, 72) && RXV_R8(M, 80) && RXV_R8(M, 88) && RXV_R8(M, 96) && RXV_R8(M, 104) && RXV_R8(M, 112) && RXV_R8(M, 120))
/* loop invariants of the two permutation loops of fill_block (call-free, one conjunct per word of the block):
   RXV_W(j) is word j of the working block, RXV_ROWDONE/RXV_COLDONE say whether word j was already permuted after i iterations */
#define RXV_ROW_OK(j) (RXV_W(j) == (RXV_ROWDONE(j, i) ? g_Q1[j] : g_Q0[j]))
#define RXV_COL_OK(j) (RXV_W(j) == (RXV_COLDONE(j, i) ? g_Q2[j] : g_Q1[j]))
#define RXV_ROW_LOOP_INVARIANT __CPROVER_assigns(i, RXV_W_OBJECT) __CPROVER_loop_invariant(i <= RXV_NITER && RXV_R128(RXV_ROW_OK)) __CPROVER_decreases(RXV_NITER - i)
#define RXV_COL_LOOP_INVARIANT __CPROVER_assigns(i, RXV_W_OBJECT) __CPROVER_loop_invariant(i <= RXV_NITER && RXV_R128(RXV_COL_OK)) __CPROVER_decreases(RXV_NITER - i)

/* valid instance as built by randomx_argon2_initialize / rxa2_* for a single lane (RandomX: Table 7.1.1, p = 1) */
#define RXV_VALID_INSTANCE(in) ((in)->lanes == 1 && (in)->segment_length >= 2 && (in)->segment_length <= (1u << 20) && \
	(in)->lane_length == 4 * (in)->segment_length && (in)->memory_blocks == (in)->lane_length && \
	((in)->version == ARGON2_VERSION_10 || (in)->version == ARGON2_VERSION_13))

/* (1) functional contract: the reference index is the one of RFC 9106 3.4 */
uint32_t randomx_argon2_index_alpha(const argon2_instance_t *instance, const argon2_position_t *position, uint32_t pseudo_rand, int same_lane)
__CPROVER_requires(__CPROVER_is_fresh(instance, sizeof(*instance)) && __CPROVER_is_fresh(position, sizeof(*position)))
__CPROVER_requires(RXV_VALID_INSTANCE(instance) && position->slice < 4 && position->lane == 0 && position->index < instance->segment_length)
/* the first two blocks of pass 0 are produced by the initial hash, and a reference set is never empty */
__CPROVER_requires(!(position->pass == 0 && position->slice == 0) || (position->index >= 2 && same_lane == 1))
__CPROVER_requires(same_lane == 0 || same_lane == 1)
__CPROVER_assigns()
__CPROVER_ensures(__CPROVER_return_value == spec_index_alpha(position->pass, position->slice, position->index, instance->lane_length, instance->segment_length, same_lane, pseudo_rand))
__CPROVER_ensures(__CPROVER_return_value < instance->lane_length);

/* (2) the same function as seen by fill_segment: called once per index, in order, result recorded */
uint32_t rxv_index_alpha_use(const argon2_instance_t *instance, const argon2_position_t *position, uint32_t pseudo_rand, int same_lane)
__CPROVER_requires(instance == g_inst && position->pass == g_pass && position->lane == g_lane && position->slice == g_slice)
__CPROVER_requires(position->index == g_start + g_calls && position->index < G_SL && g_fills == g_calls)
__CPROVER_requires(same_lane == 1)            /* one lane: the reference lane is always the current lane */
__CPROVER_assigns(g_calls, g_idx, g_ref, g_j1, g_same)
__CPROVER_ensures(g_calls == __CPROVER_old(g_calls) + 1 && g_idx == position->index && g_j1 == pseudo_rand && g_same == same_lane)
__CPROVER_ensures(__CPROVER_return_value == g_ref && g_ref < G_Q);

/* (3) fill_block as seen by fill_segment (reference implementation: previous block passed by pointer):
   the block built is block G_CUR, from its cyclic predecessor and from the block index_alpha chose out of J1 = low word of
   the predecessor; XOR-over-old exactly in passes > 0 of version 0x13 (RFC 9106 3.2 steps 5/6) */
#define RXV_FILL_REQ(prevword) \
	__CPROVER_requires(g_fills + 1 == g_calls) \
	__CPROVER_requires(next_block == g_inst->memory + G_CUR) \
	__CPROVER_requires(ref_block == g_inst->memory + (uint64_t)G_Q * g_lane + g_ref) \
	__CPROVER_requires(g_j1 == (uint32_t)(prevword)) \
	__CPROVER_requires(with_xor == ((g_inst->version != ARGON2_VERSION_10 && g_pass != 0) ? 1 : 0))
#endif
