/* shared by the three implementations: contract of fill_segment and its loop invariant (same loop in all three files) */
#define RXV_SEG_BASE (position.lane * instance->lane_length + position.slice * instance->segment_length)
/* case split of the three fill_block call sites (one obligation each; together they cover every valid instance/position):
   0: version 0x10   1: version 0x13, pass 0   2: version 0x13, later passes */
#if RXV_CASE == 0
#define RXV_CASE_REQ (instance->version == ARGON2_VERSION_10)
#elif RXV_CASE == 1
#define RXV_CASE_REQ (instance->version == ARGON2_VERSION_13 && position.pass == 0)
#else
#define RXV_CASE_REQ (instance->version == ARGON2_VERSION_13 && position.pass != 0)
#endif
#define RXV_SEGMENT_CONTRACT \
__CPROVER_requires(__CPROVER_is_fresh(instance, sizeof(*instance)) && RXV_VALID_INSTANCE(instance)) \
__CPROVER_requires(RXV_CASE_REQ) \
__CPROVER_requires(__CPROVER_is_fresh(instance->memory, (size_t)instance->lane_length * sizeof(block))) \
__CPROVER_requires(position.lane == 0 && position.slice < 4) \
__CPROVER_requires(g_inst == instance && g_pass == position.pass && g_lane == position.lane && g_slice == position.slice) \
__CPROVER_requires(g_start == ((position.pass == 0 && position.slice == 0) ? 2u : 0u) && g_calls == 0 && g_fills == 0 && g_k < 128) \
__CPROVER_requires(g_a < instance->lane_length && g_old == instance->memory[g_a].v[g_k]) \
__CPROVER_assigns(g_calls, g_fills, g_idx, g_ref, g_j1, g_same, __CPROVER_object_whole(instance->memory)) \
/* frame inside the memory (ghost probe: arbitrary block g_a, arbitrary word g_k): every block outside \
   [base + start, base + segment_length) keeps its value (a symbolic-size assigns slice is not tractable in CBMC) */ \
__CPROVER_ensures((g_a < RXV_SEG_BASE + g_start || g_a >= RXV_SEG_BASE + instance->segment_length) ==> instance->memory[g_a].v[g_k] == g_old) \
/* every index of the segment got exactly one index_alpha call and one fill_block call, in order */ \
__CPROVER_ensures(g_calls == instance->segment_length - g_start && g_fills == g_calls)

#define RXV_SEGMENT_LOOP_ASSIGNS(...) \
	__CPROVER_assigns(i, curr_offset, prev_offset, pseudo_rand, ref_index, ref_lane, ref_block, curr_block, position.index, \
		g_calls, g_fills, g_idx, g_ref, g_j1, g_same, __VA_ARGS__ \
		__CPROVER_object_whole(instance->memory))
#define RXV_SEGMENT_LOOP_INV \
	__CPROVER_loop_invariant(starting_index <= i && i <= instance->segment_length && g_calls == i - starting_index && g_fills == g_calls) \
	__CPROVER_loop_invariant(curr_offset == RXV_SEG_BASE + i) \
	__CPROVER_loop_invariant((g_a < RXV_SEG_BASE + starting_index || g_a >= RXV_SEG_BASE + instance->segment_length) ==> instance->memory[g_a].v[g_k] == g_old) \
	__CPROVER_loop_invariant(i == instance->segment_length || ((curr_offset % instance->lane_length == 0) ? prev_offset == curr_offset + instance->lane_length - 1 : \
		((curr_offset % instance->lane_length == 1) ? (prev_offset == curr_offset - 1 || prev_offset == curr_offset + instance->lane_length - 1) \
		: prev_offset == curr_offset - 1)))
#define RXV_SEGMENT_LOOP_DECREASES __CPROVER_decreases(instance->segment_length - i)
