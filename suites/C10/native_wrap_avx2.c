/* native wrapper: exposes the static fill_block of the real src/argon2_avx2.c (included unmodified) */
#include "argon2_avx2.c"
void rxv_fill_block_avx2(void* state, const block* ref, block* next, int with_xor) { fill_block(state, ref, next, with_xor); }
