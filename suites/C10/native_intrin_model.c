/* Native supporting check (NOT a proof): the trusted C models of the intrinsics (stubs/intrin/rxv_intrin_model.h) agree with
   the CPU on random operands, for every intrinsic and every immediate the argon2 sources use.  Needs SSSE3+AVX2. */
#include <stdio.h>
#include <stdint.h>
#include <string.h>
#include <immintrin.h>
#define __m128i m128
#define __m256i m256
#define _MM_SHUFFLE_REAL _MM_SHUFFLE
#undef _MM_SHUFFLE
#define N(x) model##x
#define _mm_xor_si128 N(_mm_xor_si128)
#define _mm_add_epi64 N(_mm_add_epi64)
#define _mm_mul_epu32 N(_mm_mul_epu32)
#define _mm_loadu_si128 N(_mm_loadu_si128)
#define _mm_storeu_si128 N(_mm_storeu_si128)
#define _mm_slli_epi64 N(_mm_slli_epi64)
#define _mm_srli_epi64 N(_mm_srli_epi64)
#define _mm_shuffle_epi32 N(_mm_shuffle_epi32)
#define _mm_shuffle_epi8 N(_mm_shuffle_epi8)
#define _mm_alignr_epi8 N(_mm_alignr_epi8)
#define _mm_setr_epi8 N(_mm_setr_epi8)
#define _mm256_xor_si256 N(_mm256_xor_si256)
#define _mm256_add_epi64 N(_mm256_add_epi64)
#define _mm256_mul_epu32 N(_mm256_mul_epu32)
#define _mm256_loadu_si256 N(_mm256_loadu_si256)
#define _mm256_storeu_si256 N(_mm256_storeu_si256)
#define _mm256_srli_epi64 N(_mm256_srli_epi64)
#define _mm256_shuffle_epi32 N(_mm256_shuffle_epi32)
#define _mm256_shuffle_epi8 N(_mm256_shuffle_epi8)
#define _mm256_permute4x64_epi64 N(_mm256_permute4x64_epi64)
#define _mm256_blend_epi32 N(_mm256_blend_epi32)
#define _mm256_setr_epi8 N(_mm256_setr_epi8)
#include "intrin/rxv_intrin_model.h"
#undef __m128i
#undef __m256i
#undef _mm_xor_si128
#undef _mm_add_epi64
#undef _mm_mul_epu32
#undef _mm_loadu_si128
#undef _mm_storeu_si128
#undef _mm_slli_epi64
#undef _mm_srli_epi64
#undef _mm_shuffle_epi32
#undef _mm_shuffle_epi8
#undef _mm_alignr_epi8
#undef _mm_setr_epi8
#undef _mm256_xor_si256
#undef _mm256_add_epi64
#undef _mm256_mul_epu32
#undef _mm256_loadu_si256
#undef _mm256_storeu_si256
#undef _mm256_srli_epi64
#undef _mm256_shuffle_epi32
#undef _mm256_shuffle_epi8
#undef _mm256_permute4x64_epi64
#undef _mm256_blend_epi32
#undef _mm256_setr_epi8
static uint64_t s = 0x9e3779b97f4a7c15ull;
static uint64_t rnd(void) { s ^= s << 13; s ^= s >> 7; s ^= s << 17; return s; }
static int fails = 0; static long cases = 0;
#define CK128(name, real, mod) do { __m128i R = (real); m128 M = (mod); ++cases; if (memcmp(&R, &M, 16)) { if (fails < 5) printf("FAIL %s\n", name); ++fails; } } while (0)
#define CK256(name, real, mod) do { __m256i R = (real); m256 M = (mod); ++cases; if (memcmp(&R, &M, 32)) { if (fails < 5) printf("FAIL %s\n", name); ++fails; } } while (0)
int main(void) {
	for (int it = 0; it < 200000; ++it) {
		uint64_t a[4], b[4]; for (int i = 0; i < 4; ++i) { a[i] = rnd(); b[i] = rnd(); if (it % 7 == 0) b[i] &= 0x8f8f8f8f8f8f8f8full; }
		__m128i A = _mm_loadu_si128((const __m128i*)a), B = _mm_loadu_si128((const __m128i*)b);
		m128 a1, b1; memcpy(&a1, a, 16); memcpy(&b1, b, 16);
		__m256i A2 = _mm256_loadu_si256((const __m256i*)a), B2 = _mm256_loadu_si256((const __m256i*)b);
		m256 a2, b2; memcpy(&a2, a, 32); memcpy(&b2, b, 32);
		CK128("xor", _mm_xor_si128(A, B), model_mm_xor_si128(a1, b1));
		CK128("add64", _mm_add_epi64(A, B), model_mm_add_epi64(a1, b1));
		CK128("mul_epu32", _mm_mul_epu32(A, B), model_mm_mul_epu32(a1, b1));
		CK128("slli1", _mm_slli_epi64(A, 1), model_mm_slli_epi64(a1, 1));
		CK128("srli63", _mm_srli_epi64(A, 63), model_mm_srli_epi64(a1, 63));
		CK128("srli32", _mm_srli_epi64(A, 32), model_mm_srli_epi64(a1, 32));
		CK128("shuffle32", _mm_shuffle_epi32(A, _MM_SHUFFLE_REAL(2, 3, 0, 1)), model_mm_shuffle_epi32(a1, _MM_SHUFFLE(2, 3, 0, 1)));
		CK128("shuffle32b", _mm_shuffle_epi32(A, 0x1b), model_mm_shuffle_epi32(a1, 0x1b));
		CK128("shuffle8", _mm_shuffle_epi8(A, B), model_mm_shuffle_epi8(a1, b1));
		CK128("alignr8", _mm_alignr_epi8(A, B, 8), model_mm_alignr_epi8(a1, b1, 8));
		CK128("alignr3", _mm_alignr_epi8(A, B, 3), model_mm_alignr_epi8(a1, b1, 3));
		CK128("setr8", _mm_setr_epi8(2, 3, 4, 5, 6, 7, 0, 1, 10, 11, 12, 13, 14, 15, 8, 9), model_mm_setr_epi8(2, 3, 4, 5, 6, 7, 0, 1, 10, 11, 12, 13, 14, 15, 8, 9));
		CK256("xor256", _mm256_xor_si256(A2, B2), model_mm256_xor_si256(a2, b2));
		CK256("add256", _mm256_add_epi64(A2, B2), model_mm256_add_epi64(a2, b2));
		CK256("mul256", _mm256_mul_epu32(A2, B2), model_mm256_mul_epu32(a2, b2));
		CK256("srli256", _mm256_srli_epi64(A2, 63), model_mm256_srli_epi64(a2, 63));
		CK256("shuffle32_256", _mm256_shuffle_epi32(A2, _MM_SHUFFLE_REAL(2, 3, 0, 1)), model_mm256_shuffle_epi32(a2, _MM_SHUFFLE(2, 3, 0, 1)));
		CK256("shuffle8_256", _mm256_shuffle_epi8(A2, B2), model_mm256_shuffle_epi8(a2, b2));
		CK256("permute_1", _mm256_permute4x64_epi64(A2, _MM_SHUFFLE_REAL(0, 3, 2, 1)), model_mm256_permute4x64_epi64(a2, _MM_SHUFFLE(0, 3, 2, 1)));
		CK256("permute_2", _mm256_permute4x64_epi64(A2, _MM_SHUFFLE_REAL(1, 0, 3, 2)), model_mm256_permute4x64_epi64(a2, _MM_SHUFFLE(1, 0, 3, 2)));
		CK256("permute_3", _mm256_permute4x64_epi64(A2, _MM_SHUFFLE_REAL(2, 1, 0, 3)), model_mm256_permute4x64_epi64(a2, _MM_SHUFFLE(2, 1, 0, 3)));
		CK256("permute_4", _mm256_permute4x64_epi64(A2, _MM_SHUFFLE_REAL(3, 1, 2, 0)), model_mm256_permute4x64_epi64(a2, _MM_SHUFFLE(3, 1, 2, 0)));
		CK256("blend_cc", _mm256_blend_epi32(A2, B2, 0xCC), model_mm256_blend_epi32(a2, b2, 0xCC));
		CK256("blend_33", _mm256_blend_epi32(A2, B2, 0x33), model_mm256_blend_epi32(a2, b2, 0x33));
		CK256("blend_f0", _mm256_blend_epi32(A2, B2, 0xF0), model_mm256_blend_epi32(a2, b2, 0xF0));
		CK256("setr8_256", _mm256_setr_epi8(3, 4, 5, 6, 7, 0, 1, 2, 11, 12, 13, 14, 15, 8, 9, 10, 3, 4, 5, 6, 7, 0, 1, 2, 11, 12, 13, 14, 15, 8, 9, 10),
			model_mm256_setr_epi8(3, 4, 5, 6, 7, 0, 1, 2, 11, 12, 13, 14, 15, 8, 9, 10, 3, 4, 5, 6, 7, 0, 1, 2, 11, 12, 13, 14, 15, 8, 9, 10));
	}
	printf("CASES %ld\n", cases);
	return fails ? 1 : 0;
}
