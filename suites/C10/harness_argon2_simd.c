/* real src/argon2_ssse3.c or src/argon2_avx2.c (woven copy: loop contract inserted in fill_segment, nothing else), compiled
   with __SSSE3__ / __AVX2__ defined and the intrinsic models of stubs/intrin instead of the compiler's intrinsic headers */
#include "contracts_argon2_simd.h"
#include "ghost_argon2.h"
/* STUB (over-approximation, exact on the probe word): the only memcpy of these files copies the previous block into the
   vector state at the start of fill_segment; the destination is havocked and then word g_k - the arbitrary ghost probe all
   contracts speak about - is copied exactly.  CBMC's built-in memcpy from a symbolic-size object does not scale. */
void* memcpy(void* dst, const void* src, size_t n) {
	__CPROVER_assert(n == sizeof(block) && __CPROVER_r_ok(src, n) && __CPROVER_w_ok(dst, n), "memcpy: one whole block, both ranges valid");
	uint64_t w = ((const uint64_t*)src)[g_k];
	__CPROVER_havoc_slice(dst, sizeof(block));
	((uint64_t*)dst)[g_k] = w;
	return dst;
}
#include RXV_WOVEN
void h_fill_block(void) {
	static block mem[2]; static RXV_VEC state[sizeof(block) / sizeof(RXV_VEC)]; unsigned b = nondet_unsigned(), c = nondet_unsigned();
	__CPROVER_assume(b < 2 && c < 2);
	for (int j = 0; j < 2; ++j) for (int i = 0; i < 128; ++i) mem[j].v[i] = nondet_u64();
	for (int i = 0; i < 128; ++i) ((uint64_t*)state)[i] = nondet_u64();
	ghost_havoc();
	fill_block(state, &mem[b], &mem[c], nondet_int());
	__CPROVER_assert(0, "canary");
}
void h_fill_segment(void) {
	const argon2_instance_t* inst; argon2_position_t pos;
	ghost_havoc();
	RXV_SEG_FN(inst, pos);
	__CPROVER_assert(0, "canary");
}
