import os, sys
sys.path.insert(0, os.path.join(os.path.dirname(os.path.abspath(__file__)), "..", "common"))
import cxx_specs as XS
from imports import imported

PROPERTY = "C10"
LEVEL = "proof"
EXPLANATION = ("Proof on the real argon2_core.c / argon2_ref.c / argon2_ssse3.c / argon2_avx2.c: index_alpha equals the RFC 9106 3.4 mapping for every position and J1; each of the three fill_segment implementations, for every instance size, pass, slice and version, calls fill_block exactly once per index of the segment in order, on the cyclic predecessor, on the block index_alpha selects from the predecessor's first word and on the block under construction, XORing over the old block exactly in passes > 0 of version 0x13, and leaves every block outside the segment untouched (unbounded: loop contract, symbolic-size memory); fBlaMka is a + b + 2 lo(a) lo(b). The compression function fill_block == G for the three implementations is only sampled natively (bounded stand-in; the deductive obligations are kept under --tier attempt, see NOT_DECIDED). The SIMD files are compiled against C models of 22 intrinsics (trusted, differentially tested against the CPU on every run).")
TRUSTED = ['stubs/intrin/rxv_intrin_model.h: C models of the 22 SSE2/SSSE3/AVX2 intrinsics used (Intel Intrinsics Guide pseudo-code); a native differential test against the CPU runs as obligation intrinsic_models_match_cpu (supporting, not proof)', '32x32->64 multiplication is an uninterpreted function in the fill_block obligations (tied to the code by fBlaMka_body)', 'SIMD harness memcpy stub: destination havocked, exact on the ghost probe word']
ASSUMPTIONS = ['one lane (RandomX: Table 7.1.1 p = 1), 2 <= segment_length <= 2^20, lane_length = 4 * segment_length, version in {0x10, 0x13}']
NOT_DECIDED = ['fill_block == G (RFC 9106 3.5) for ref / SSSE3 / AVX2: obligations exist (--tier attempt; loop-invariant cuts per permutation loop, uninterpreted 32x32 product) but did not finish within 30 GB / 900 s on any back end; the sampled native comparison stands in, labelled bounded', 'initial hash H0, first two blocks of each lane (blake2b_long), finalisation omitted, re-initialisation leaving no trace (follows from pass-0 overwrite, decided for fill_segment only)', 'selectArgonImpl flag dispatch']


def woven(src, fn, nloops, k="0", fb_loops=2, fb_row="0"):
    # fill_segment: its one loop; fill_block: the row loop and the column loop (reference: loops 0, 1 of 2; SSSE3/AVX2: after the
    # two input loops, loops 2, 3 of 5)
    return {"weave": "@repo/src/" + src, "out": src.replace(".c", "_woven.c"), "header": True,
            "loops": [{"function": fn, "expect_loops": nloops, "loops": {k: "RXV_SEGMENT_LOOP_INVARIANT"}},
                      {"function": "fill_block", "expect_loops": fb_loops,
                       "loops": {fb_row: "RXV_ROW_LOOP_INVARIANT", str(int(fb_row) + 1): "RXV_COL_LOOP_INVARIANT"}}]}


SEG_REPLAY = {"prog": "replay_fill_segment.c", "no_args": True, "flags": ["-O2", "-mssse3", "-mavx2"],
              "sources": ["src/argon2_ref.c", "src/argon2_ssse3.c", "src/argon2_avx2.c", "src/argon2_core.c", "src/blake2/blake2b.c"]}
CHECKS = ["--bounds-check", "--pointer-check", "--div-by-zero-check", "--undefined-shift-check", "--signed-overflow-check"]
CASES = ["v10", "v13_pass0", "v13_later_passes"]


# fill_block == G with loop-invariant cuts (contracts in contracts_argon2_ref.h / contracts_argon2_simd.h): kept out of the tiers
# because no back end finished (30 GB / 900 s); run with --only 'ATTEMPT_' --tier attempt


def simd(impl, vec):
    fn = "randomx_argon2_fill_segment_" + impl
    files = [woven("argon2_%s.c" % impl, fn, 1, fb_loops=5, fb_row="2"), "harness_argon2_simd.c"]
    defs = ["RXV_VEC=" + vec, "RXV_SEG_FN=" + fn, 'RXV_WOVEN="argon2_%s_woven.c"' % impl, "__SSSE3__=1", "__AVX2__=1", "__GNUC__=12"]
    inc = ["@stubs/intrin"]
    attempt = [{"name": "ATTEMPT_fill_block_%s_equals_G_rfc9106_3_5" % impl, "tier": "attempt", "files": files, "incdirs": inc, "defines": defs + ["RXV_UF_MUL=1"],
                "entry": "h_fill_block", "enforce": "fill_block", "replace": [], "unwind": 130, "checks": CHECKS, "loop_contracts": True, "unwind_false_loops": True,
                "cbmc_flags": ["--object-bits", "12"], "mem_gb": 40, "weight": 8,
                "expect_classes": ["postcondition", "loop_invariant_base", "loop_invariant_step"], "expect_min": 5, "timeout": 7200}]
    return attempt + [
        {"name": "fill_segment_%s_schedule_and_frame_%s" % (impl, CASES[c]), "files": files, "incdirs": inc, "defines": defs + ["RXV_CASE=%d" % c],
         "tier": "thorough" if c == 0 else "quick",
         "entry": "h_fill_segment", "enforce": fn,
         "replace": ["randomx_argon2_index_alpha/rxv_index_alpha_use", "fill_block/rxv_fill_block_use"], "loop_contracts": True, "checks": CHECKS,
         "expect_classes": ["postcondition", "precondition", "loop_invariant_base", "loop_invariant_step"], "expect_min": 10, "timeout": 3600, "mem_gb": 20, "weight": 5, "replay": SEG_REPLAY}
        for c in range(3)
    ]


REF = [woven("argon2_ref.c", "randomx_argon2_fill_segment_ref", 1), "harness_argon2_ref.c"]
OBLIGATIONS = [
    {"name": "fBlaMka_body_is_a_plus_b_plus_2_lo_a_lo_b", "files": REF,
     "entry": "h_fblamka", "enforce": "fBlaMka", "replace": [], "backend": "z3", "checks": CHECKS,
     "expect_classes": ["postcondition"], "expect_min": 1, "timeout": 600},
    {"name": "index_alpha_equals_rfc9106_3_4", "files": ["harness_argon2_core.c"], "entry": "h_index_alpha",
     "enforce": "randomx_argon2_index_alpha", "replace": [], "checks": CHECKS, "backend": "kissat",
     "expect_classes": ["postcondition"], "expect_min": 2, "timeout": 1800, "weight": 2},
    # supporting native checks (never counted as proof): the trusted intrinsic models against the CPU; fill_block against spec_G
    {"name": "intrinsic_models_match_cpu_sampled", "kind": "native", "bounded": "5.2 million random operand cases, every intrinsic / immediate used",
     "native": {"prog": "native_intrin_model.c", "sources": [], "flags": ["-O1", "-mssse3", "-mavx2"]}},
    {"name": "fill_three_implementations_equal_rfc9106_on_reduced_instances", "kind": "native", "bounded": "one lane, 8 / 16 / 64 blocks, 1-3 passes, pre-filled memory, three implementations",
     "native": dict(SEG_REPLAY)},
    {"name": "fill_block_three_implementations_equal_G_sampled", "kind": "native", "bounded": "20000 pseudo-random / structured block triples per implementation (200000 in the thorough tier)",
     "native": {"prog": "native_fill_block.c", "sources": ["src/argon2_core.c", "src/blake2/blake2b.c", "@suites/C10/native_wrap_ref.c", "@suites/C10/native_wrap_ssse3.c", "@suites/C10/native_wrap_avx2.c"],
                "flags": ["-O2", "-mssse3", "-mavx2"], "args": ["20000"]}},
    {"name": "ATTEMPT_fill_block_ref_equals_G_rfc9106_3_5", "tier": "attempt", "files": REF,
     "entry": "h_fill_block", "enforce": "fill_block", "replace": ["fBlaMka"], "defines": ["RXV_UF_MUL=1"], "unwind": 130, "checks": CHECKS, "loop_contracts": True,
     "unwind_false_loops": True, "cbmc_flags": ["--object-bits", "12"], "mem_gb": 40, "weight": 8,
     "expect_classes": ["postcondition", "loop_invariant_base", "loop_invariant_step"], "expect_min": 5, "timeout": 7200},
] + [
    {"name": "fill_segment_ref_schedule_and_frame_" + CASES[c], "files": REF, "tier": "thorough" if c == 0 else "quick",
     "entry": "h_fill_segment", "enforce": "randomx_argon2_fill_segment_ref", "defines": ["RXV_CASE=%d" % c],
     "replace": ["randomx_argon2_index_alpha/rxv_index_alpha_use", "fill_block/rxv_fill_block_use"], "loop_contracts": True,
     "checks": CHECKS,
     "expect_classes": ["postcondition", "precondition", "loop_invariant_base", "loop_invariant_step"], "expect_min": 10, "timeout": 1800, "mem_gb": 16, "weight": 3, "replay": SEG_REPLAY}
    for c in range(3)
] + simd("ssse3", "__m128i") + simd("avx2", "__m256i")
# the initial hash H0 and the first two blocks are Blake2b computations over 48 + |key| bytes: the framing contracts of suite C11
OBLIGATIONS += [
    imported("C11", "update_arith_contract_input_fits_buffer", "initial_hash_blake2b_update_buffers_input_that_fits"),
    imported("C11", "update_arith_contract_one_block_completed", "initial_hash_blake2b_update_compresses_exactly_one_completed_block"),
    imported("C11", "final_contract", "initial_hash_blake2b_final_pads_and_flags_the_last_block"),
]
