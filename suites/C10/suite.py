import os, sys
sys.path.insert(0, os.path.join(os.path.dirname(os.path.abspath(__file__)), "..", "common"))
import cxx_specs as XS

PROPERTY = "C10"
LEVEL = "proof"
EXPLANATION = ""
TRUSTED = []
ASSUMPTIONS = []
NOT_DECIDED = []


def woven(src, fn, nloops, k="0", fb_loops=2, fb_row="0"):
    # fill_segment: its one loop; fill_block: the row loop and the column loop (reference: loops 0, 1 of 2; SSSE3/AVX2: after the
    # two input loops, loops 2, 3 of 5)
    return {"weave": "@repo/src/" + src, "out": src.replace(".c", "_woven.c"), "header": True,
            "loops": [{"function": fn, "expect_loops": nloops, "loops": {k: "RXV_SEGMENT_LOOP_INVARIANT"}},
                      {"function": "fill_block", "expect_loops": fb_loops,
                       "loops": {fb_row: "RXV_ROW_LOOP_INVARIANT", str(int(fb_row) + 1): "RXV_COL_LOOP_INVARIANT"}}]}


CHECKS = ["--bounds-check", "--pointer-check", "--div-by-zero-check", "--undefined-shift-check", "--signed-overflow-check"]
CASES = ["v10", "v13_pass0", "v13_later_passes"]


def simd(impl, vec):
    fn = "randomx_argon2_fill_segment_" + impl
    files = [woven("argon2_%s.c" % impl, fn, 1, fb_loops=5, fb_row="2"), "harness_argon2_simd.c"]
    defs = ["RXV_VEC=" + vec, "RXV_SEG_FN=" + fn, 'RXV_WOVEN="argon2_%s_woven.c"' % impl, "__SSSE3__=1", "__AVX2__=1", "__GNUC__=12"]
    inc = ["@stubs/intrin"]
    return [
        {"name": "fill_block_%s_equals_G_rfc9106_3_5" % impl, "files": files, "incdirs": inc, "defines": defs + ["RXV_UF_MUL=1"],
         "entry": "h_fill_block", "enforce": "fill_block", "replace": [], "unwind": 130, "checks": CHECKS, "loop_contracts": True, "unwind_false_loops": True,
         "expect_classes": ["postcondition", "loop_invariant_base", "loop_invariant_step"], "expect_min": 5, "timeout": 1800},
    ] + [
        {"name": "fill_segment_%s_schedule_and_frame_%s" % (impl, CASES[c]), "files": files, "incdirs": inc, "defines": defs + ["RXV_CASE=%d" % c],
         "entry": "h_fill_segment", "enforce": fn,
         "replace": ["randomx_argon2_index_alpha/rxv_index_alpha_use", "fill_block/rxv_fill_block_use"], "loop_contracts": True, "checks": CHECKS,
         "expect_classes": ["postcondition", "precondition", "loop_invariant_base", "loop_invariant_step"], "expect_min": 10, "timeout": 3600, "mem_gb": 20, "weight": 5}
        for c in range(3)
    ]


OBLIGATIONS = [
    {"name": "fBlaMka_body_is_a_plus_b_plus_2_lo_a_lo_b", "files": [woven("argon2_ref.c", "randomx_argon2_fill_segment_ref", 1), "harness_argon2_ref.c"],
     "entry": "h_fblamka", "enforce": "fBlaMka", "replace": [], "backend": "z3", "checks": CHECKS,
     "expect_classes": ["postcondition"], "expect_min": 1, "timeout": 600},
    {"name": "fill_block_ref_equals_G_rfc9106_3_5", "files": [woven("argon2_ref.c", "randomx_argon2_fill_segment_ref", 1), "harness_argon2_ref.c"],
     "entry": "h_fill_block", "enforce": "fill_block", "replace": ["fBlaMka"], "defines": ["RXV_UF_MUL=1"], "unwind": 130, "checks": CHECKS, "loop_contracts": True, "unwind_false_loops": True,
     "expect_classes": ["postcondition", "loop_invariant_base", "loop_invariant_step"], "expect_min": 5, "timeout": 1800},
    {"name": "TRY3_fill_block_ref_real_kissat", "files": [woven("argon2_ref.c", "randomx_argon2_fill_segment_ref", 1), "harness_argon2_ref.c"],
     "entry": "h_fill_block", "enforce": "fill_block", "replace": [], "unwind": 130, "checks": CHECKS, "loop_contracts": True, "backend": "kissat", "tier": "try", "mem_gb": 16, "unwind_false_loops": True,
     "expect_classes": ["postcondition", "loop_invariant_base", "loop_invariant_step"], "expect_min": 5, "timeout": 1800},
    {"name": "TRY3_fill_block_ref_real_cadical", "files": [woven("argon2_ref.c", "randomx_argon2_fill_segment_ref", 1), "harness_argon2_ref.c"],
     "entry": "h_fill_block", "enforce": "fill_block", "replace": [], "unwind": 130, "checks": CHECKS, "loop_contracts": True, "backend": "cadical", "tier": "try", "mem_gb": 16, "unwind_false_loops": True,
     "expect_classes": ["postcondition", "loop_invariant_base", "loop_invariant_step"], "expect_min": 5, "timeout": 1800},
    {"name": "TRY2_fill_block_ref_cvc5", "files": [woven("argon2_ref.c", "randomx_argon2_fill_segment_ref", 1), "harness_argon2_ref.c"],
     "entry": "h_fill_block", "enforce": "fill_block", "replace": ["fBlaMka"], "defines": ["RXV_UF_MUL=1"], "unwind": 130, "checks": CHECKS, "loop_contracts": True, "backend": "cvc5", "tier": "try", "cbmc_flags": ["--object-bits", "12"], "unwind_false_loops": True,
     "expect_classes": ["postcondition", "loop_invariant_base", "loop_invariant_step"], "expect_min": 5, "timeout": 1800},
    {"name": "TRY2_fill_block_ref_z3", "files": [woven("argon2_ref.c", "randomx_argon2_fill_segment_ref", 1), "harness_argon2_ref.c"],
     "entry": "h_fill_block", "enforce": "fill_block", "replace": ["fBlaMka"], "defines": ["RXV_UF_MUL=1"], "unwind": 130, "checks": CHECKS, "loop_contracts": True, "backend": "z3", "tier": "try", "cbmc_flags": ["--object-bits", "12"], "unwind_false_loops": True,
     "expect_classes": ["postcondition", "loop_invariant_base", "loop_invariant_step"], "expect_min": 5, "timeout": 1800},
    {"name": "TRY_fill_block_ref_cvc5_uf", "files": [woven("argon2_ref.c", "randomx_argon2_fill_segment_ref", 1), "harness_argon2_ref.c"],
     "entry": "h_fill_block", "enforce": "fill_block", "replace": ["fBlaMka"], "defines": ["RXV_UF_MUL=1"], "unwind": 130, "checks": CHECKS, "backend": "cvc5", "tier": "try",
     "cbmc_flags": ["--object-bits", "12"], "expect_classes": ["postcondition"], "expect_min": 1, "timeout": 1800},
    {"name": "TRY_fill_block_ref_z3_uf", "files": [woven("argon2_ref.c", "randomx_argon2_fill_segment_ref", 1), "harness_argon2_ref.c"],
     "entry": "h_fill_block", "enforce": "fill_block", "replace": ["fBlaMka"], "defines": ["RXV_UF_MUL=1"], "unwind": 130, "checks": CHECKS, "backend": "z3", "tier": "try",
     "cbmc_flags": ["--object-bits", "12"], "expect_classes": ["postcondition"], "expect_min": 1, "timeout": 1800},
    {"name": "index_alpha_equals_rfc9106_3_4", "files": ["harness_argon2_core.c"], "entry": "h_index_alpha",
     "enforce": "randomx_argon2_index_alpha", "replace": [], "checks": CHECKS, "backend": "z3",
     "expect_classes": ["postcondition"], "expect_min": 2, "timeout": 900},
    {"name": "TRY_index_alpha_kissat", "files": ["harness_argon2_core.c"], "entry": "h_index_alpha",
     "enforce": "randomx_argon2_index_alpha", "replace": [], "checks": CHECKS, "backend": "kissat", "tier": "try",
     "expect_classes": ["postcondition"], "expect_min": 2, "timeout": 900},
    {"name": "TRY_index_alpha_cadical", "files": ["harness_argon2_core.c"], "entry": "h_index_alpha",
     "enforce": "randomx_argon2_index_alpha", "replace": [], "checks": CHECKS, "backend": "cadical", "tier": "try",
     "expect_classes": ["postcondition"], "expect_min": 2, "timeout": 900},
    {"name": "TRY_index_alpha_cvc5", "files": ["harness_argon2_core.c"], "entry": "h_index_alpha",
     "enforce": "randomx_argon2_index_alpha", "replace": [], "checks": CHECKS, "backend": "cvc5", "tier": "try",
     "expect_classes": ["postcondition"], "expect_min": 2, "timeout": 900},
] + [
    {"name": "fill_segment_ref_schedule_and_frame_" + CASES[c], "files": [woven("argon2_ref.c", "randomx_argon2_fill_segment_ref", 1), "harness_argon2_ref.c"],
     "entry": "h_fill_segment", "enforce": "randomx_argon2_fill_segment_ref", "defines": ["RXV_CASE=%d" % c],
     "replace": ["randomx_argon2_index_alpha/rxv_index_alpha_use", "fill_block/rxv_fill_block_use"], "loop_contracts": True,
     "checks": CHECKS,
     "expect_classes": ["postcondition", "precondition", "loop_invariant_base", "loop_invariant_step"], "expect_min": 10, "timeout": 1800, "mem_gb": 16, "weight": 3}
    for c in range(3)
] + simd("ssse3", "__m128i") + simd("avx2", "__m256i")
