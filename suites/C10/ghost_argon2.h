const argon2_instance_t* g_inst; uint32_t g_pass, g_lane, g_slice, g_start, g_calls, g_fills, g_idx, g_ref, g_j1; int g_same; unsigned g_k; uint32_t g_a; uint64_t g_old; uint64_t g_Q0[128], g_Q1[128], g_Q2[128], g_T[128];
uint32_t nondet_u32(void); uint64_t nondet_u64(void); int nondet_int(void); unsigned nondet_unsigned(void); const argon2_instance_t* nondet_inst(void);
static void ghost_havoc(void) { g_inst = nondet_inst(); g_pass = nondet_u32(); g_lane = nondet_u32(); g_slice = nondet_u32(); g_start = nondet_u32();
	g_calls = nondet_u32(); g_fills = nondet_u32(); g_idx = nondet_u32(); g_ref = nondet_u32(); g_j1 = nondet_u32(); g_same = nondet_int(); g_k = nondet_unsigned(); g_a = nondet_u32(); g_old = nondet_u64();
	for (int i = 0; i < 128; ++i) { g_Q0[i] = nondet_u64(); g_Q1[i] = nondet_u64(); g_Q2[i] = nondet_u64(); g_T[i] = nondet_u64(); } }
