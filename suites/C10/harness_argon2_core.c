#include "contracts_argon2.h"
#include "ghost_argon2.h"
#include "argon2_core.c"
void h_index_alpha(void) {
	const argon2_instance_t* inst; const argon2_position_t* pos; uint32_t j1 = nondet_u32(); int same = nondet_int();
	randomx_argon2_index_alpha(inst, pos, j1, same);
	__CPROVER_assert(0, "canary");
}
