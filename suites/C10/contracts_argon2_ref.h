#ifndef RXV_CONTRACTS_ARGON2_REF_H
#define RXV_CONTRACTS_ARGON2_REF_H
#include "contracts_argon2.h"
/* fill_block as used by fill_segment (contract name rxv_fill_block_use, attached with fill_block/rxv_fill_block_use) */
static void rxv_fill_block_use(const block *prev_block, const block *ref_block, block *next_block, int with_xor)
RXV_FILL_REQ(g_inst->memory[SPEC_PREV(G_CUR, G_Q)].v[0])
__CPROVER_requires(prev_block == g_inst->memory + SPEC_PREV(G_CUR, G_Q))
__CPROVER_assigns(*next_block, g_fills)
__CPROVER_ensures(g_fills == __CPROVER_old(g_fills) + 1);

/* BlaMka multiply-add (RFC 9106 3.6: a + b + 2 * trunc(a) * trunc(b)) */
static uint64_t fBlaMka(uint64_t x, uint64_t y)
__CPROVER_requires(1)
__CPROVER_assigns()
__CPROVER_ensures(__CPROVER_return_value == x + y + 2 * SPEC_MUL32(x, y));

/* functional contract of the reference compression: next = G(prev, ref) [xor old next] (RFC 9106 3.5): with the ghost
   arrays holding the staged computation for the inputs, every word of the result is q2 ^ t.  The three blocks may alias
   in any way (the harness takes them from one 3-block array). */
static void fill_block(const block *prev_block, const block *ref_block, block *next_block, int with_xor)
__CPROVER_requires(__CPROVER_r_ok(prev_block, sizeof(block)) && __CPROVER_r_ok(ref_block, sizeof(block)) && __CPROVER_rw_ok(next_block, sizeof(block)) && g_k < 128)
__CPROVER_requires(spec_stages(prev_block->v, ref_block->v, next_block->v, with_xor, g_Q0, g_Q1, g_Q2, g_T))
__CPROVER_assigns(__CPROVER_object_upto(next_block, sizeof(block)))
__CPROVER_ensures(next_block->v[g_k] == (g_Q2[g_k] ^ g_T[g_k]));
#define RXV_W(j) (blockR.v[j])
#define RXV_W_OBJECT __CPROVER_object_whole(&blockR)
#define RXV_NITER 8u
#define RXV_ROWDONE(j, i) ((j) / 16 < (i))
#define RXV_COLDONE(j, i) (((j) % 16) / 2 < (i))

#include "contracts_argon2_seg.h"
void randomx_argon2_fill_segment_ref(const argon2_instance_t *instance, argon2_position_t position)
RXV_SEGMENT_CONTRACT;

#define RXV_SEGMENT_LOOP_INVARIANT RXV_SEGMENT_LOOP_ASSIGNS() RXV_SEGMENT_LOOP_INV RXV_SEGMENT_LOOP_DECREASES
#endif
