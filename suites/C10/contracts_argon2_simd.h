/* Contracts for the SSSE3 / AVX2 fill (src/argon2_ssse3.c, src/argon2_avx2.c), compiled unmodified against the trusted C
   models of the intrinsics (stubs/intrin).  RXV_VEC is the vector type (__m128i / __m256i), RXV_SEG_FN the entry point. */
#ifndef RXV_CONTRACTS_ARGON2_SIMD_H
#define RXV_CONTRACTS_ARGON2_SIMD_H
#include "rxv_intrin_model.h"
#include "contracts_argon2.h"
#define RXV_STATE_WORD(st, k) (((const uint64_t*)(st))[k])
/* fill_block as used by fill_segment: `state` carries the previous block in, the new block out */
static void rxv_fill_block_use(RXV_VEC* state, const block* ref_block, block* next_block, int with_xor)
RXV_FILL_REQ(g_inst->memory[SPEC_PREV(G_CUR, G_Q)].v[0])
__CPROVER_requires(__CPROVER_rw_ok(state, sizeof(block)) && RXV_STATE_WORD(state, g_k) == g_inst->memory[SPEC_PREV(G_CUR, G_Q)].v[g_k])
__CPROVER_assigns(*next_block, __CPROVER_object_upto(state, sizeof(block)), g_fills)
__CPROVER_ensures(g_fills == __CPROVER_old(g_fills) + 1 && RXV_STATE_WORD(state, g_k) == next_block->v[g_k]);

/* functional contract: next = G(state, ref) [xor old next], and state = next afterwards (RFC 9106 3.5; ghost arrays as in
   the reference contract) */
static void fill_block(RXV_VEC* state, const block* ref_block, block* next_block, int with_xor)
__CPROVER_requires(__CPROVER_rw_ok(state, sizeof(block)) && __CPROVER_r_ok(ref_block, sizeof(block)) && __CPROVER_rw_ok(next_block, sizeof(block)) && g_k < 128)
__CPROVER_requires(spec_stages((const uint64_t*)state, ref_block->v, next_block->v, with_xor, g_Q0, g_Q1, g_Q2, g_T))
__CPROVER_assigns(__CPROVER_object_upto(next_block, sizeof(block)), __CPROVER_object_upto(state, sizeof(block)))
__CPROVER_ensures(next_block->v[g_k] == (g_Q2[g_k] ^ g_T[g_k]) && RXV_STATE_WORD(state, g_k) == next_block->v[g_k]);
#define RXV_W(j) (((const uint64_t*)state)[j])
#define RXV_W_OBJECT __CPROVER_object_upto(state, sizeof(block))
/* words per loop iteration: SSSE3 one row / one column (16 words), AVX2 two rows / two columns (32 words) */
#define RXV_NITER ((unsigned)(128 / (8 * (sizeof(RXV_VEC) / 8))))
#define RXV_ROWDONE(j, i) ((j) / (8 * (sizeof(RXV_VEC) / 8)) < (i))
#define RXV_COLDONE(j, i) (((j) % 16) / (sizeof(RXV_VEC) / 8) < (i))

#include "contracts_argon2_seg.h"
void RXV_SEG_FN(const argon2_instance_t *instance, argon2_position_t position)
RXV_SEGMENT_CONTRACT;
#define RXV_SEGMENT_LOOP_INVARIANT RXV_SEGMENT_LOOP_ASSIGNS(__CPROVER_object_whole(state),) RXV_SEGMENT_LOOP_INV \
	__CPROVER_loop_invariant(i == instance->segment_length || RXV_STATE_WORD(state, g_k) == instance->memory[SPEC_PREV(curr_offset, instance->lane_length)].v[g_k]) \
	RXV_SEGMENT_LOOP_DECREASES
#endif
