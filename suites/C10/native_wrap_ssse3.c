/* native wrapper: exposes the static fill_block of the real src/argon2_ssse3.c (included unmodified) */
#include "argon2_ssse3.c"
void rxv_fill_block_ssse3(void* state, const block* ref, block* next, int with_xor) { fill_block(state, ref, next, with_xor); }
