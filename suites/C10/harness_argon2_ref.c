/* real src/argon2_ref.c (woven copy: loop contract inserted in randomx_argon2_fill_segment_ref, nothing else) */
#include "contracts_argon2_ref.h"
#include "ghost_argon2.h"
#include "argon2_ref_woven.c"
void h_fblamka(void) { fBlaMka(nondet_u64(), nondet_u64()); __CPROVER_assert(0, "canary"); }
void h_fill_block(void) {
	static block mem[3];
#ifdef RXV_ALIAS
	/* aliasing pattern of (prev, ref, next), a base-3 number: 012 = all distinct, 000 = all the same block, ... */
	unsigned a = (RXV_ALIAS / 9) % 3, b = (RXV_ALIAS / 3) % 3, c = RXV_ALIAS % 3;
#else
	unsigned a = nondet_unsigned(), b = nondet_unsigned(), c = nondet_unsigned();
	__CPROVER_assume(a < 3 && b < 3 && c < 3);
#endif
	for (int j = 0; j < 3; ++j) for (int i = 0; i < 128; ++i) mem[j].v[i] = nondet_u64();
	ghost_havoc();
	fill_block(&mem[a], &mem[b], &mem[c], nondet_int());
	__CPROVER_assert(0, "canary");
}
void h_fill_segment(void) {
	const argon2_instance_t* inst; argon2_position_t pos;
	ghost_havoc();
	randomx_argon2_fill_segment_ref(inst, pos);
	__CPROVER_assert(0, "canary");
}
