/* Native replay for the fill_segment obligations (no verifier inputs needed: the counterexample is a loop-invariant state).
   The three real fill_segment implementations (reference, SSSE3, AVX2; built from /repo) are run on reduced instances
   (one lane, 8 .. 64 blocks, 1 .. 3 passes, version 0x13) whose memory is pre-filled with NON-ZERO garbage - so that a wrong
   overwrite / XOR decision in pass 0, a wrong predecessor or a wrong reference block changes the result - and compared with
   an independent driver written from RFC 9106 that uses spec_index_alpha / spec_G of spec_argon2.h.  exit 1 on a mismatch. */
#include <stdio.h>
#include <stdlib.h>
#include <string.h>
#include <stdint.h>
#include "argon2.h"
#include "argon2_core.h"
#include "spec_argon2.h"
void randomx_argon2_fill_segment_ref(const argon2_instance_t* instance, argon2_position_t position);
randomx_argon2_impl* randomx_argon2_impl_ssse3(void); randomx_argon2_impl* randomx_argon2_impl_avx2(void);
static uint64_t s = 0x13198a2e03707344ull;
static uint64_t rnd(void) { s ^= s << 13; s ^= s >> 7; s ^= s << 17; return s; }
static void spec_fill(block* m, uint32_t q, uint32_t passes) {           /* RFC 9106 3.2 steps 5-6, one lane, blocks 0 and 1 given */
	uint32_t sl = q / 4;
	for (uint32_t p = 0; p < passes; ++p) for (uint32_t sidx = 0; sidx < 4; ++sidx) for (uint32_t idx = (p == 0 && sidx == 0) ? 2 : 0; idx < sl; ++idx) {
		uint32_t cur = sidx * sl + idx, prev = SPEC_PREV(cur, q);
		uint32_t j1 = (uint32_t)m[prev].v[0];
		uint32_t ref = spec_index_alpha(p, sidx, idx, q, sl, 1, j1);
		block out; spec_G(m[prev].v, m[ref].v, m[cur].v, p != 0, out.v); m[cur] = out;
	}
}
static int run(const char* name, randomx_argon2_impl* impl, uint32_t q, uint32_t passes) {
	if (!impl) return 0;
	block* a = aligned_alloc(64, (size_t)q * sizeof(block)); block* b = aligned_alloc(64, (size_t)q * sizeof(block));
	for (uint32_t i = 0; i < q; ++i) for (int k = 0; k < 128; ++k) a[i].v[k] = b[i].v[k] = rnd() | 1;
	argon2_instance_t in; memset(&in, 0, sizeof in);
	in.memory = a; in.version = ARGON2_VERSION_13; in.passes = passes; in.memory_blocks = q; in.segment_length = q / 4; in.lane_length = q; in.lanes = 1; in.threads = 1; in.type = Argon2_d;
	for (uint32_t p = 0; p < passes; ++p) for (uint32_t sidx = 0; sidx < 4; ++sidx) { argon2_position_t pos = { p, 0, (uint8_t)sidx, 0 }; impl(&in, pos); }
	spec_fill(b, q, passes);
	int bad = memcmp(a, b, (size_t)q * sizeof(block)) != 0;
	if (bad) { uint32_t i = 0; while (!memcmp(&a[i], &b[i], sizeof(block))) ++i; printf("FAIL %s, %u blocks, %u passes: block %u differs from the RFC 9106 fill\n", name, q, passes, i); }
	free(a); free(b); return bad;
}
int main(void) {
	int fails = 0, cases = 0; const uint32_t qs[] = { 8, 16, 64 };
	for (unsigned i = 0; i < 3; ++i) for (uint32_t p = 1; p <= 3; ++p) {
		fails += run("reference", randomx_argon2_fill_segment_ref, qs[i], p); fails += run("SSSE3", randomx_argon2_impl_ssse3(), qs[i], p); fails += run("AVX2", randomx_argon2_impl_avx2(), qs[i], p); cases += 3; }
	printf("CASES %d\n", cases);
	return fails ? 1 : 0;
}
