/* Native stand-in (NOT a proof, labelled bounded): the compression function fill_block of the three real implementations
   against the independent specification spec_G (RFC 9106 3.5) on pseudo-random and structured blocks, with and without XOR,
   including the aliasing patterns fill_segment can produce.  Deductive proof of this equality did not finish (DESIGN.md). */
#include <stdio.h>
#include <stdlib.h>
#include <string.h>
#include <stdint.h>
#include "argon2.h"
#include "argon2_core.h"
#include "spec_argon2.h"
void rxv_fill_block_ref(const block* prev, const block* ref, block* next, int with_xor);
void rxv_fill_block_ssse3(void* state, const block* ref, block* next, int with_xor);
void rxv_fill_block_avx2(void* state, const block* ref, block* next, int with_xor);
static uint64_t s = 0x243f6a8885a308d3ull;
static uint64_t rnd(void) { s ^= s << 13; s ^= s >> 7; s ^= s << 17; return s; }
int main(int argc, char** argv) {
	long n = argc > 1 ? atol(argv[1]) : 20000, cases = 0; int fails = 0;
	for (long it = 0; it < n; ++it) {
		block x, y, o, exp, r1, r2, r3; __attribute__((aligned(32))) block st2, st3;
		for (int i = 0; i < 128; ++i) { uint64_t m = (it % 5 == 0) ? 0xffffffff00000000ull : (it % 5 == 1) ? 0x00000000ffffffffull : ~0ull;
			x.v[i] = rnd() & m; y.v[i] = rnd() & m; o.v[i] = rnd(); }
		if (it % 7 == 0) y = x;                      /* ref == prev */
		int wx = (int)(it & 1);
		spec_G(x.v, y.v, o.v, wx, exp.v);
		r1 = o; rxv_fill_block_ref(&x, &y, &r1, wx);
		r2 = o; st2 = x; rxv_fill_block_ssse3(&st2, &y, &r2, wx);
		r3 = o; st3 = x; rxv_fill_block_avx2(&st3, &y, &r3, wx);
		++cases;
		if (memcmp(&r1, &exp, sizeof exp)) { if (fails < 5) printf("FAIL case %ld: reference fill_block differs from G\n", it); ++fails; }
		if (memcmp(&r2, &exp, sizeof exp) || memcmp(&st2, &exp, sizeof exp)) { if (fails < 5) printf("FAIL case %ld: SSSE3 fill_block (or its state) differs from G\n", it); ++fails; }
		if (memcmp(&r3, &exp, sizeof exp) || memcmp(&st3, &exp, sizeof exp)) { if (fails < 5) printf("FAIL case %ld: AVX2 fill_block (or its state) differs from G\n", it); ++fails; }
	}
	printf("CASES %ld\n", cases);
	return fails ? 1 : 0;
}
