/* native wrapper: exposes the static fill_block of the real src/argon2_ref.c (included unmodified) */
#include "argon2_ref.c"
void rxv_fill_block_ref(const block* prev, const block* ref, block* next, int with_xor) { fill_block(prev, ref, next, with_xor); }
