/* Independent specification of the Argon2d memory fill (RFC 9106, version 0x13; version 0x10 where the code supports it),
   written from the RFC, not from the code.  Used by the contracts of suite C10. */
#ifndef RXV_SPEC_ARGON2_H
#define RXV_SPEC_ARGON2_H
#include <stdint.h>
/* --- RFC 9106 3.4.1.1 / 3.4.2: mapping J1 to the reference block index inside a lane (|W| = reference set size) ---
   p = pass, s = slice, idx = index inside the segment, q = lane length, sl = segment length (q = 4 sl) */
static inline uint32_t spec_refset(uint32_t p, uint32_t s, uint32_t idx, uint32_t q, uint32_t sl, int same_lane) {
	uint32_t finished = (p == 0) ? s * sl : q - sl;          /* blocks of the finished segments that may be referenced */
	return same_lane ? finished + idx - 1                     /* plus this segment's blocks, minus the previous block */
	                 : finished - (idx == 0 ? 1u : 0u);
}
static inline uint32_t spec_index_alpha(uint32_t p, uint32_t s, uint32_t idx, uint32_t q, uint32_t sl, int same_lane, uint32_t j1) {
	uint32_t w = spec_refset(p, s, idx, q, sl, same_lane);
	uint64_t x = ((uint64_t)j1 * (uint64_t)j1) >> 32;
	uint64_t y = ((uint64_t)w * x) >> 32;
	uint64_t zz = (uint64_t)w - 1 - y;
	uint32_t start = (p == 0 || s == 3) ? 0 : (s + 1) * sl;   /* oldest referencable block of the lane */
	return (uint32_t)(((uint64_t)start + zz) % q);
}
/* block that precedes block `cur` in its lane (cyclically) */
#define SPEC_PREV(cur, q) (((cur) % (q)) == 0 ? (cur) + (q) - 1 : (cur) - 1)

/* --- RFC 9106 3.5 / 3.6: compression function G with the BlaMka permutation P --- */
/* 32x32->64 multiplication of the low halves.  With RXV_UF_MUL it is an uninterpreted function (UF) in the spec, in the
   contract of fBlaMka and in the intrinsic models alike: a proof with the UF holds for every interpretation, in particular
   for the real product, which the fBlaMka body obligation ties to the code. */
#ifdef RXV_UF_MUL
uint64_t __CPROVER_uninterpreted_mul32(uint32_t, uint32_t);
#define SPEC_MUL32(a, b) __CPROVER_uninterpreted_mul32((uint32_t)(a), (uint32_t)(b))
#define RXV_MUL32(a, b) SPEC_MUL32(a, b)
#else
#define SPEC_MUL32(a, b) ((uint64_t)(uint32_t)(a) * (uint64_t)(uint32_t)(b))
#endif
static inline uint64_t spec_rotr64(uint64_t x, unsigned n) { return (x >> n) | (x << (64 - n)); }
#define SPEC_GB(a, b, c, d) do { \
	a = a + b + 2 * SPEC_MUL32(a, b); d = spec_rotr64(d ^ a, 32); \
	c = c + d + 2 * SPEC_MUL32(c, d); b = spec_rotr64(b ^ c, 24); \
	a = a + b + 2 * SPEC_MUL32(a, b); d = spec_rotr64(d ^ a, 16); \
	c = c + d + 2 * SPEC_MUL32(c, d); b = spec_rotr64(b ^ c, 63); } while (0)
static inline void spec_P(uint64_t* v[16]) {
	SPEC_GB(*v[0], *v[4], *v[8], *v[12]); SPEC_GB(*v[1], *v[5], *v[9], *v[13]);
	SPEC_GB(*v[2], *v[6], *v[10], *v[14]); SPEC_GB(*v[3], *v[7], *v[11], *v[15]);
	SPEC_GB(*v[0], *v[5], *v[10], *v[15]); SPEC_GB(*v[1], *v[6], *v[11], *v[12]);
	SPEC_GB(*v[2], *v[7], *v[8], *v[13]); SPEC_GB(*v[3], *v[4], *v[9], *v[14]);
}
/* Staged form of G(x, y): q0 = R = x ^ y; q1 = P on the 8 rows of R; q2 = P on the 8 columns of q1 (8x8 matrix of 16-byte
   registers); t = R (xor the old block, when with_xor).  The result block is q2 ^ t.  spec_stages returns 1 iff the four
   arrays hold exactly these values for the given inputs. */
static inline int spec_stages(const uint64_t x[128], const uint64_t y[128], const uint64_t old[128], int with_xor,
	const uint64_t q0[128], const uint64_t q1[128], const uint64_t q2[128], const uint64_t t[128]) {
	uint64_t q[128]; uint64_t* v[16]; int ok = 1;
	for (int i = 0; i < 128; ++i) { q[i] = x[i] ^ y[i]; ok = ok && q0[i] == q[i] && t[i] == (q[i] ^ (with_xor ? old[i] : 0)); }
	for (int i = 0; i < 8; ++i) { for (int k = 0; k < 16; ++k) v[k] = &q[16 * i + k]; spec_P(v); }
	for (int i = 0; i < 128; ++i) ok = ok && q1[i] == q[i];
	for (int i = 0; i < 8; ++i) { for (int k = 0; k < 8; ++k) { v[2 * k] = &q[2 * i + 16 * k]; v[2 * k + 1] = &q[2 * i + 16 * k + 1]; } spec_P(v); }
	for (int i = 0; i < 128; ++i) ok = ok && q2[i] == q[i];
	return ok;
}
/* out = G(x, y) (xor old, when with_xor): the result block q2 ^ t of the staged computation above */
static inline void spec_G(const uint64_t x[128], const uint64_t y[128], const uint64_t old[128], int with_xor, uint64_t out[128]) {
	uint64_t r[128], q[128]; uint64_t* v[16];
	for (int i = 0; i < 128; ++i) { r[i] = x[i] ^ y[i]; q[i] = r[i]; }
	for (int i = 0; i < 8; ++i) { for (int k = 0; k < 16; ++k) v[k] = &q[16 * i + k]; spec_P(v); }
	for (int i = 0; i < 8; ++i) { for (int k = 0; k < 8; ++k) { v[2 * k] = &q[2 * i + 16 * k]; v[2 * k + 1] = &q[2 * i + 16 * k + 1]; } spec_P(v); }
	for (int i = 0; i < 128; ++i) out[i] = q[i] ^ r[i] ^ (with_xor ? old[i] : 0);
}
#endif
