/* C17: the portable (non-SIMD, no __int128) definitions of src/intrin_portable.h, src/instructions_portable.cpp and
   src/blake2/endian.h equal the reference meaning the optimised build gets from hardware instructions.  These are also
   the contracts (contracts_portable.h, contracts_mem.h) that the instruction-level proofs of C05 use in place of the bodies. */
#include "ip.c"
#include "spec_isa.h"
uint64_t nondet_u64(void); uint32_t nondet_u32(void); unsigned nondet_unsigned(void); double nondet_double(void); uint8_t nondet_u8(void); int nondet_int(void);
static uint64_t bits(double d) { return spec_d2u(d); }
/* fenv stubs: record what the portable rounding helpers request (TRUSTED: the C library applies it) */
int rxv_fe_mode = -1;
int fesetround(int m) { rxv_fe_mode = m; return 0; }
int fegetround(void) { return rxv_fe_mode; }

void h_rot(void) {
	uint64_t a = nondet_u64(); unsigned c = nondet_unsigned(); __CPROVER_assume(c < 64);   /* callers mask with 63 (exe_IROR_R, exe_IROL_R, CFROUND decode) */
	__CPROVER_assert(rotr(a, c) == spec_rotr64(a, c), "portable rotr == 64-bit rotate right, no undefined shift");
	__CPROVER_assert(rotl(a, c) == spec_rotl64(a, c), "portable rotl == 64-bit rotate left, no undefined shift");
	__CPROVER_assert(0, "canary");
}
void h_conv(void) {
	uint32_t x = nondet_u32(); uint64_t y = nondet_u64();
	__CPROVER_assert((uint32_t)unsigned32ToSigned2sCompl(x) == x && (unsigned32ToSigned2sCompl(x) < 0) == ((x >> 31) != 0), "unsigned32ToSigned2sCompl is the two's complement reinterpretation");
	__CPROVER_assert((uint64_t)unsigned64ToSigned2sCompl(y) == y && (unsigned64ToSigned2sCompl(y) < 0) == ((y >> 63) != 0), "unsigned64ToSigned2sCompl is the two's complement reinterpretation");
	__CPROVER_assert(signExtend2sCompl(x) == spec_sext32(x), "signExtend2sCompl is 32->64 sign extension");
	__CPROVER_assert(0, "canary");
}
void h_mem(void) {
	uint8_t b[16]; for (int k = 0; k < 16; k++) b[k] = nondet_u8();
	uint64_t w = nondet_u64(); uint32_t v = nondet_u32(); int o = nondet_int(); __CPROVER_assume(0 <= o && o <= 8);
	__CPROVER_assert(load64(b + o) == spec_load64_bytes(b, (uint32_t)o), "load64 is the little-endian composition of 8 bytes");
	__CPROVER_assert(load32(b + o) == spec_load32_bytes(b, (uint32_t)o), "load32 is the little-endian composition of 4 bytes");
	uint8_t c[16]; for (int k = 0; k < 16; k++) c[k] = b[k];
	store64(c + o, w);
	for (int k = 0; k < 16; k++) __CPROVER_assert(c[k] == ((k >= o && k < o + 8) ? (uint8_t)(w >> (8 * (k - o))) : b[k]), "store64 writes exactly 8 little-endian bytes");
	for (int k = 0; k < 16; k++) c[k] = b[k];
	store32(c + o, v);
	for (int k = 0; k < 16; k++) __CPROVER_assert(c[k] == ((k >= o && k < o + 4) ? (uint8_t)(v >> (8 * (k - o))) : b[k]), "store32 writes exactly 4 little-endian bytes");
	__CPROVER_assert(0, "canary");
}
void h_vec(void) {
	rx_vec_f128 a, b; a.lo = nondet_double(); a.hi = nondet_double(); b.lo = nondet_double(); b.hi = nondet_double();
	__CPROVER_rounding_mode = nondet_int(); __CPROVER_assume(0 <= __CPROVER_rounding_mode && __CPROVER_rounding_mode < 4);
	rx_vec_f128 r;
#if VECPART == 1
	r = rx_add_vec_f128(a, b); __CPROVER_assert(bits(r.lo) == bits(a.lo + b.lo) && bits(r.hi) == bits(a.hi + b.hi), "rx_add_vec_f128 is lane-wise +  (addpd)");
	r = rx_sub_vec_f128(a, b); __CPROVER_assert(bits(r.lo) == bits(a.lo - b.lo) && bits(r.hi) == bits(a.hi - b.hi), "rx_sub_vec_f128 is lane-wise -  (subpd)");
#elif VECPART == 2
	r = rx_mul_vec_f128(a, b); __CPROVER_assert(bits(r.lo) == bits(a.lo * b.lo) && bits(r.hi) == bits(a.hi * b.hi), "rx_mul_vec_f128 is lane-wise *  (mulpd)");
#elif VECPART == 3
	r = rx_div_vec_f128(a, b); __CPROVER_assert(bits(r.lo) == bits(a.lo / b.lo) && bits(r.hi) == bits(a.hi / b.hi), "rx_div_vec_f128 is lane-wise /  (divpd)");
#else
	r = rx_swap_vec_f128(a); __CPROVER_assert(bits(r.lo) == bits(a.hi) && bits(r.hi) == bits(a.lo), "rx_swap_vec_f128 swaps the halves (shufpd 1)");
	r = rx_xor_vec_f128(a, b); __CPROVER_assert(bits(r.lo) == (bits(a.lo) ^ bits(b.lo)) && bits(r.hi) == (bits(a.hi) ^ bits(b.hi)), "rx_xor_vec_f128 (xorps)");
	r = rx_and_vec_f128(a, b); __CPROVER_assert(bits(r.lo) == (bits(a.lo) & bits(b.lo)) && bits(r.hi) == (bits(a.hi) & bits(b.hi)), "rx_and_vec_f128 (andps)");
	r = rx_or_vec_f128(a, b); __CPROVER_assert(bits(r.lo) == (bits(a.lo) | bits(b.lo)) && bits(r.hi) == (bits(a.hi) | bits(b.hi)), "rx_or_vec_f128 (orps)");
	uint64_t x1 = nondet_u64(), x0 = nondet_u64();
	r = rx_set_vec_f128(x1, x0); __CPROVER_assert(bits(r.lo) == x0 && bits(r.hi) == x1, "rx_set_vec_f128(x1, x0): low half = x0 (_mm_set_epi64x order)");
	r = rx_set1_vec_f128(x0); __CPROVER_assert(bits(r.lo) == x0 && bits(r.hi) == x0, "rx_set1_vec_f128 broadcasts");
	uint8_t m[8]; for (int k = 0; k < 8; k++) m[k] = nondet_u8();
	r = rx_cvt_packed_int_vec_f128(m);
	spec_f2 want = spec_cvt_f2(spec_load32_bytes(m, 0), spec_load32_bytes(m, 4));
	__CPROVER_assert(bits(r.lo) == bits(want.lo) && bits(r.hi) == bits(want.hi), "rx_cvt_packed_int_vec_f128 converts two little-endian int32 exactly (cvtdq2pd)");
	rx_vec_i128 v = rx_set_int_vec_i128(4, 3, 2, 1);
	__CPROVER_assert(rx_vec_i128_x(v) == 1 && rx_vec_i128_y(v) == 2 && rx_vec_i128_z(v) == 3 && rx_vec_i128_w(v) == 4, "rx_set_int_vec_i128(i3,i2,i1,i0): lane order of _mm_set_epi32");
	double st[2]; rx_store_vec_f128(st, a); rx_vec_f128 l = rx_load_vec_f128(st);
	__CPROVER_assert(bits(st[0]) == bits(a.lo) && bits(st[1]) == bits(a.hi) && bits(l.lo) == bits(a.lo) && bits(l.hi) == bits(a.hi), "rx_store/load_vec_f128: low half first");
#endif
	__CPROVER_assert(0, "canary");
}
void h_round(void) {
	unsigned mode = nondet_unsigned(); __CPROVER_assume(mode < 4);
	static const int fe[4] = { FE_TONEAREST, FE_DOWNWARD, FE_UPWARD, FE_TOWARDZERO };       /* doc/specs.md Table 4.3.1 */
	rx_set_rounding_mode(mode);
	__CPROVER_assert(rxv_fe_mode == fe[mode], "fenv rx_set_rounding_mode: fprc 0..3 = nearest, toward -inf, toward +inf, toward zero");
	__CPROVER_assert(rx_get_rounding_mode() == mode, "rx_get_rounding_mode reads it back");
	rx_reset_float_state();
	__CPROVER_assert(rxv_fe_mode == FE_TONEAREST, "rx_reset_float_state selects round-to-nearest");
	__CPROVER_assert(0, "canary");
}
/* mulh: the 32x32 schoolbook carry network, with the four partial products abstract (extraction rule replaces the four
   `*` by rxv_x00..rxv_x11): the returned word is bits 64..127 of x11*2^64 + (x01 + x10)*2^32 + x00.
   ASSUME: a*b == x11*2^64 + (x01+x10)*2^32 + x00 for the partial products of a and b (distributivity of the 128-bit
   product; machine arithmetic treated as mathematical - the solvers do not finish on it, DESIGN section 2). */
uint64_t rxv_x00, rxv_x01, rxv_x10, rxv_x11;
void h_mulh(void) {
	const uint64_t lim = 0xfffffffe00000001ULL;          /* (2^32 - 1)^2 */
	rxv_x00 = nondet_u64(); rxv_x01 = nondet_u64(); rxv_x10 = nondet_u64(); rxv_x11 = nondet_u64();
	__CPROVER_assume(rxv_x00 <= lim && rxv_x01 <= lim && rxv_x10 <= lim && rxv_x11 <= lim);
	uint64_t got = mulh(nondet_u64(), nondet_u64());
	unsigned __int128 sum = ((unsigned __int128)rxv_x11 << 64) + (((unsigned __int128)rxv_x01 + rxv_x10) << 32) + rxv_x00;
	__CPROVER_assert(got == (uint64_t)(sum >> 64), "mulh carry network returns bits 64..127 of the partial-product sum");
	__CPROVER_assert(0, "canary");
}
/* smulh: signed high word from the unsigned high word: hi - (a < 0 ? b : 0) - (b < 0 ? a : 0) (two's complement identity) */
uint64_t rxv_mulh_result;
void h_smulh(void) {
	int64_t a = (int64_t)nondet_u64(), b = (int64_t)nondet_u64();
	rxv_mulh_result = nondet_u64();
	int64_t got = smulh(a, b);
	uint64_t want = rxv_mulh_result - (a < 0 ? (uint64_t)b : 0) - (b < 0 ? (uint64_t)a : 0);
	__CPROVER_assert((uint64_t)got == want, "smulh = mulh(a, b) - (a<0 ? b : 0) - (b<0 ? a : 0) modulo 2^64");
	__CPROVER_assert(0, "canary");
}
