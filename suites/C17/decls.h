extern uint64_t rxv_x00, rxv_x01, rxv_x10, rxv_x11, rxv_mulh_result;
