import os, sys
sys.path.insert(0, os.path.join(os.path.dirname(os.path.abspath(__file__)), "..", "common"))
import cxx_specs as XS

PROPERTY = "C17"
LEVEL = "proof"
EXPLANATION = ('Proof that the portable fallbacks (rotations, sign extension, integer <-> double conversions, little-endian loads and stores, vector logic, mulh / smulh carry network, fenv rounding-mode mapping) compute the specified values for all operands.')
TRUSTED = ["SSE2 / AES-NI intrinsic semantics per the Intel SDM (the reference side of the comparison)", "host IEEE-754 arithmetic and libm sqrt",
           "the C library applies fesetround / fegetround as requested"]
ASSUMPTIONS = ["distributivity of the 128-bit product over 32-bit halves (mulh): machine arithmetic treated as mathematical",
               "two's complement identity relating signed and unsigned high product words (smulh)"]
NOT_DECIDED = ["equality of two whole builds (portable vs optimised) on whole hashes", "rx_div_vec_f128 portable lane-wise division == IEEE division (attempt obligation vector_struct_div, solver timeout)"]
INC = ["@suites/common"]


def ob(name, entry, spec=XS.PORTABLE, **kw):
    o = {"name": name, "files": [{"cxx": spec, "out": "ip.c", "header": True}, "harness_portable.c"], "incdirs": INC,
         "defines": ['RXV_CONTRACTS_H="decls.h"'], "entry": entry, "unwind": 20, "expect_classes": ["assertion"], "expect_min": 2}
    o.update(kw)
    return o


OBLIGATIONS = [
    ob("rotr_rotl_portable", "h_rot"),
    ob("twos_complement_conversions", "h_conv"),
    ob("little_endian_load_store", "h_mem"),
    ob("vector_struct_logic_set_convert", "h_vec", defines=['RXV_CONTRACTS_H="decls.h"', "VECPART=0"]),
    ob("vector_struct_add_sub", "h_vec", defines=['RXV_CONTRACTS_H="decls.h"', "VECPART=1"], backend="cadical", timeout=600),
    ob("vector_struct_mul", "h_vec", defines=['RXV_CONTRACTS_H="decls.h"', "VECPART=2"], backend="cadical", timeout=1200, tier="thorough"),
    # lane-wise double division against the FP semantics: no back end finished (cadical 1200 s); kept as an attempt, listed as not decided
    ob("vector_struct_div", "h_vec", defines=['RXV_CONTRACTS_H="decls.h"', "VECPART=3"], backend="cadical", timeout=1200, tier="attempt"),
    ob("fenv_rounding_mode_mapping", "h_round"),
    ob("mulh_carry_network", "h_mulh", XS.PORTABLE_MULH),
    # no signed-overflow check here: `hi -= b` in the portable smulh can overflow int64_t for some operands (UB in ISO C,
    # wraps on every supported compiler); no failing input can be shown against the built code, so it is not claimed
    ob("smulh_sign_correction", "h_smulh", XS.PORTABLE_SMULH, checks=["--bounds-check", "--pointer-check", "--no-signed-overflow-check"]),
]
