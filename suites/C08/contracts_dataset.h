/* C08: contracts for the dataset initialisation entry point (src/randomx.cpp) and the initialiser function type.
   The indirect call `cache->datasetInit(...)` is rewritten by an extraction rule into a direct call of
   rxv_dataset_init, whose contract is the contract of *every* initialiser the field can hold:
     - initDataset (dataset.cpp) is enforced against it in its own obligation,
     - the compiled (assembly) initialiser is ASSUMED to satisfy it (TRUSTED).
   The dataset is a 2 GiB object; CBMC cannot havoc or read slices of it ("array too large for flattening"), so the
   proof is a pointer/provenance proof:
     rxv_ip          ghost probe: an arbitrary item number
     rxv_item_at     ghost: address where the 64 bytes of item rxv_ip, as produced by an initialiser call, currently
                     reside (NULL: nowhere, or overwritten by bytes of another origin)
   An initialiser call that produces item rxv_ip sets rxv_item_at; one that overwrites the location with another item
   clears it; memcpy moves it (stub in the harness; the destination range is havocked, so the frame check sees it). */
#ifndef RXV_CONTRACTS_DATASET_H
#define RXV_CONTRACTS_DATASET_H
extern uint64_t rxv_ip;
extern uint8_t* rxv_item_at;
#define RXV_ITEM_COUNT 34078719ULL   /* (2^31 + 33554368) / 64: doc/specs.md Table 1.2, base + extra size in 64-byte items */
#define RXV_DATASET_BYTES (RXV_ITEM_COUNT * 64)
#define RXV_IN_RANGE(p, base, n) (__CPROVER_same_object(p, base) && __CPROVER_POINTER_OFFSET(p) >= __CPROVER_POINTER_OFFSET(base) \
	&& (size_t)(__CPROVER_POINTER_OFFSET(p) - __CPROVER_POINTER_OFFSET(base)) < (n))

#ifdef RXV_NO_CONTRACT_DECLS
void rxv_dataset_init(randomx_cache* cache, uint8_t* dataset, uint32_t startItem, uint32_t endItem);
#else
void rxv_dataset_init(randomx_cache* cache, uint8_t* dataset, uint32_t startItem, uint32_t endItem)
/* the compiled initialiser produces items in groups of four: its callers must pass a multiple of 4 */
__CPROVER_requires(startItem <= endItem && (endItem - startItem) % 4 == 0)
__CPROVER_requires(endItem == startItem || __CPROVER_w_ok(dataset, (size_t)64 * (endItem - startItem)))
__CPROVER_assigns(__CPROVER_object_upto(dataset, (size_t)64 * (endItem - startItem)), rxv_item_at)
__CPROVER_ensures((rxv_ip >= startItem && rxv_ip < endItem)
	? rxv_item_at == dataset + 64 * (rxv_ip - startItem)
	: (RXV_IN_RANGE(__CPROVER_old(rxv_item_at), dataset, (size_t)64 * (endItem - startItem))
		? rxv_item_at == NULL : rxv_item_at == __CPROVER_old(rxv_item_at)));

void randomx_init_dataset(randomx_dataset *dataset, randomx_cache *cache, unsigned long startItem, unsigned long itemCount)
__CPROVER_requires(__CPROVER_is_fresh(dataset, sizeof(*dataset)) && __CPROVER_is_fresh(dataset->memory, RXV_DATASET_BYTES))
__CPROVER_requires(cache != NULL)   /* only passed through to the initialiser */
/* documented preconditions (the function's own asserts) */
__CPROVER_requires(startItem < RXV_ITEM_COUNT && itemCount <= RXV_ITEM_COUNT && startItem + itemCount <= RXV_ITEM_COUNT)
__CPROVER_requires(rxv_item_at == NULL)
/* writes exactly the requested items and nothing outside them */
__CPROVER_assigns(__CPROVER_object_upto(dataset->memory + 64 * startItem, 64 * itemCount), rxv_item_at)
/* every requested item holds, at its own offset, the bytes an initialiser produced for its own number */
__CPROVER_ensures(!(rxv_ip >= startItem && rxv_ip < startItem + itemCount) || rxv_item_at == dataset->memory + 64 * rxv_ip);
#endif
#endif
