import os, sys
sys.path.insert(0, os.path.join(os.path.dirname(os.path.abspath(__file__)), "..", "common"))
import cxx_specs as XS
from imports import imported

PROPERTY = "C08"
LEVEL = "proof"
EXPLANATION = ("Proof that randomx_init_dataset splits every (start, count) request - including counts 0-3, non-multiples of 4 and ranges ending at the last item - into initialiser calls that together write exactly the requested items and nothing else (frame as ghost provenance on a real 2 GiB object), and that initDatasetItem follows specification 7.3. The compiled initialiser's machine code is outside the verifier's reach (trusted; C04-style validation of generateSuperscalarCode is not built).")
TRUSTED = ["memcpy provenance stub in suites/C08/harness_init_dataset.c",
           "the compiled (assembly) dataset initialiser satisfies the contract of the initialiser function type (rxv_dataset_init)",
]
ASSUMPTIONS = []
NOT_DECIDED = []
INC = ["@suites/common"]

OBLIGATIONS = [
    {
        "name": "init_dataset_writes_exactly_requested_items",
        "files": [{"cxx": XS.RX_INIT_DATASET, "out": "rx.c", "header": True}, "harness_init_dataset.c"],
        "incdirs": INC, "defines": ['RXV_CONTRACTS_H="contracts_dataset.h"'],
        "entry": "h_init_dataset", "enforce": "randomx_init_dataset", "replace": ["rxv_dataset_init"],
        "cbmc_flags": ["--arrays-uf-always"],
        "expect_classes": ["postcondition", "precondition", "assigns"], "expect_min": 10,
        "timeout": 900,
    },
    {
        "name": "init_dataset_pointer_only",
        "files": [{"cxx": XS.RX_INIT_DATASET, "out": "rx.c", "header": True}, "harness_init_dataset_ptr.c"],
        "incdirs": INC, "defines": ['RXV_CONTRACTS_H="contracts_dataset.h"', "RXV_NO_CONTRACT_DECLS=1"],
        "entry": "h_init_dataset_ptr",
        "replay": {"prog": "replay_init_dataset.cpp", "sources": "lib", "flags": ["-O1"], "vars": ["g_start", "g_count"]},
        "cbmc_flags": ["--arrays-uf-always"],
        "expect_classes": ["assertion"], "expect_min": 5,
    },
    {
        "name": "dataset_item_equals_spec_7_3", "backend": "cvc5",
        "files": [{"cxx": XS.DATASET_ITEM, "out": "ds.c", "header": True}, "harness_item.c"],
        "incdirs": INC, "defines": ['RXV_CONTRACTS_H="contracts_item.h"'],
        "entry": "h_item", "enforce": "initDatasetItem",
        "unwind": 9, "cbmc_flags": ["--object-bits", "12"],
        "checks": ["--bounds-check", "--pointer-check", "--div-by-zero-check", "--undefined-shift-check", "--signed-overflow-check"],
        "expect_classes": ["postcondition", "precondition", "assigns"], "expect_min": 20,
        "timeout": 900,
    },
    # the items are those of the key the caller asked for only if re-keying the cache really re-initialises it (contract of suite C03)
    imported("C03", "init_cache_rekeys_unless_same_key", "cache_is_reinitialised_for_every_new_key"),
]
