#include "ds.c"
uint8_t* rxv_cache_base;
int rxv_ssh_calls, rxv_ld_calls; uint64_t rxv_ssh_in[8][8], rxv_ssh_out[8][8]; const void* rxv_ssh_prog[8]; uint64_t rxv_ld_off[64], rxv_ld_val[64];
uint64_t nondet_u64(void);
/* STUB: arbitrary SuperscalarHash result, arguments and results recorded */
void executeSuperscalar(uint64_t* r, SuperscalarProgram* prog, rxv_vector* reciprocals) {
	__CPROVER_assert(rxv_ssh_calls < 8, "at most 8 SuperscalarHash executions per item");
	__CPROVER_assert(__CPROVER_rw_ok(r, 64), "register array valid");
	int c = rxv_ssh_calls++;
	rxv_ssh_prog[c] = prog;
	for (int j = 0; j < 8; j++) { rxv_ssh_in[c][j] = r[j]; r[j] = nondet_u64(); rxv_ssh_out[c][j] = r[j]; }
}
/* STUB: arbitrary cache content; the read must lie inside the cache extent */
uint64_t rxv_load64_native(const void* src) {
	__CPROVER_assert(__CPROVER_same_object(src, rxv_cache_base) && __CPROVER_POINTER_OFFSET(src) >= 0
		&& (__CPROVER_size_t)__CPROVER_POINTER_OFFSET(src) + 8 <= RXV_CACHE_BYTES, "cache read inside [cache, cache + 256 MiB)");
	__CPROVER_assert(rxv_ld_calls < 64, "at most 64 cache words per item");
	int c = rxv_ld_calls++;
	rxv_ld_off[c] = (uint64_t)__CPROVER_POINTER_OFFSET(src); rxv_ld_val[c] = nondet_u64();
	return rxv_ld_val[c];
}
void h_item(void) {
	uint8_t base[8]; rxv_cache_base = base;     /* cache memory: base pointer + extent RXV_CACHE_BYTES (contracts_item.h) */
	randomx_cache* cache; uint8_t* out;
	rxv_ssh_calls = 0; rxv_ld_calls = 0;
	initDatasetItem(cache, out, nondet_u64());
	__CPROVER_assert(0, "canary");
}
