/* Pointer-only rendering of the same contract (contracts_dataset.h), robust against CBMC's "array too large for
   flattening" on the 2 GiB dataset object: no byte of the dataset is read or written symbolically; the initialiser
   stand-in and memcpy check their destination ranges against the permitted frame by pointer arithmetic and maintain
   the provenance ghost.  Same statement: writes only inside [64*start, 64*(start+count)), every requested item ends up
   at its own offset, the initialiser is only ever asked for a multiple of four items. */
#define RXV_NO_CONTRACT_DECLS 1
#include "rx.c"
uint64_t rxv_ip; uint8_t* rxv_item_at;
static uint8_t* g_mem; static unsigned long g_start, g_count;
uint64_t nondet_u64(void); unsigned long nondet_ulong(void);
#define IN_RANGE(p, base, n) (__CPROVER_same_object(p, base) && __CPROVER_POINTER_OFFSET(p) >= __CPROVER_POINTER_OFFSET(base) \
	&& (size_t)(__CPROVER_POINTER_OFFSET(p) - __CPROVER_POINTER_OFFSET(base)) < (n))
static void check_frame(const uint8_t* dst, size_t n) {
	if (n == 0 || !__CPROVER_same_object(dst, g_mem)) return;   /* local buffers are the function's own */
	size_t off = (size_t)__CPROVER_POINTER_OFFSET(dst);
	__CPROVER_assert(off >= 64 * g_start && off + n <= 64 * (g_start + g_count), "writes only inside the requested item range");
}
void rxv_dataset_init(randomx_cache* cache, uint8_t* dataset, uint32_t startItem, uint32_t endItem) {
	__CPROVER_assert(startItem <= endItem && (endItem - startItem) % 4 == 0, "initialiser called with a multiple of four items");
	size_t n = (size_t)64 * (endItem - startItem);
	__CPROVER_assert(n == 0 || __CPROVER_w_ok(dataset, n), "initialiser destination is writable for its whole extent");
	check_frame(dataset, n);
	if (rxv_ip >= startItem && rxv_ip < endItem) rxv_item_at = dataset + 64 * (rxv_ip - startItem);
	else if (IN_RANGE(rxv_item_at, dataset, n)) rxv_item_at = (uint8_t*)0;
}
void* memcpy(void* dst, const void* src, size_t n) {
	__CPROVER_assert(n == 0 || (__CPROVER_w_ok(dst, n) && __CPROVER_r_ok(src, n)), "memcpy: source and destination ranges are valid");
	check_frame((const uint8_t*)dst, n);
	if (n > 0) {
		if (IN_RANGE(rxv_item_at, (const uint8_t*)src, n)) {
			size_t off = (size_t)(__CPROVER_POINTER_OFFSET(rxv_item_at) - __CPROVER_POINTER_OFFSET(src));
			rxv_item_at = (off % 64 == 0 && off + 64 <= n) ? (uint8_t*)dst + off : (uint8_t*)0;
		} else if (IN_RANGE(rxv_item_at, (const uint8_t*)dst, n)) rxv_item_at = (uint8_t*)0;
	}
	return dst;
}
void h_init_dataset_ptr(void) {
	randomx_dataset dataset; static randomx_cache cache;
	dataset.memory = __CPROVER_allocate(RXV_DATASET_BYTES, 0);
	g_mem = dataset.memory; g_start = nondet_ulong(); g_count = nondet_ulong();
	__CPROVER_assume(g_start < RXV_ITEM_COUNT && g_count <= RXV_ITEM_COUNT && g_start + g_count <= RXV_ITEM_COUNT);
	rxv_ip = nondet_u64(); rxv_item_at = (uint8_t*)0;
	randomx_init_dataset(&dataset, &cache, g_start, g_count);
	__CPROVER_assert(!(rxv_ip >= g_start && rxv_ip < g_start + g_count) || rxv_item_at == g_mem + 64 * rxv_ip,
		"every requested item ends up at its own offset");
	__CPROVER_assert(0, "canary");
}
