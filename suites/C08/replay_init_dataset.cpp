/* Native replay of an init_dataset counterexample (start, count) on the real library: the cache's initialiser function is
   replaced by a marker writer (item i -> 64 bytes derived from i), the dataset memory is a zero 2 GiB+ mapping.
   exit 1 = a requested item is missing/wrong, or a byte outside the requested range was written, or the initialiser was
   called with a count that is not a multiple of four. */
#define private public
#include "dataset.hpp"
#include "randomx.h"
#undef private
#include <sys/mman.h>
#include <cstdio>
#include <cstdlib>
#include <cstring>
#include <csignal>
#include <unistd.h>
static int bad = 0;
static void on_segv(int) { const char m[] = "SIGSEGV inside randomx_init_dataset: a write landed outside the dataset mapping -> VIOLATED\n"; write(1, m, sizeof m - 1); _exit(1); }
static void pattern(uint64_t item, uint8_t* out) { for (int b = 0; b < 64; b++) out[b] = (uint8_t)(0x80 | ((item * 131 + b * 7) & 0x7f)); }
static void fake_init(randomx_cache* cache, uint8_t* dataset, uint32_t startBlock, uint32_t endBlock) {
	if ((endBlock - startBlock) % 4 != 0) { printf("initialiser called with %u items (not a multiple of 4)\n", endBlock - startBlock); bad = 1; }
	for (uint32_t i = startBlock; i < endBlock; i++) pattern(i, dataset + 64ull * (i - startBlock));
}
int main(int argc, char** argv) {
	unsigned long start = 0, count = 0;
	for (int i = 1; i < argc; i++) { if (!strncmp(argv[i], "g_start=", 8)) start = strtoull(argv[i] + 8, 0, 10); if (!strncmp(argv[i], "g_count=", 8)) count = strtoull(argv[i] + 8, 0, 10); }
	unsigned long items = randomx_dataset_item_count();
	if (!(start < items && count <= items && start + count <= items)) { printf("inputs outside the documented precondition\n"); return 0; }
	size_t bytes = (size_t)items * 64, guard = 1 << 20;
	uint8_t* mem = (uint8_t*)mmap(0, bytes + 2 * guard, PROT_READ | PROT_WRITE, MAP_PRIVATE | MAP_ANONYMOUS | MAP_NORESERVE, -1, 0);
	if (mem == MAP_FAILED) { printf("mmap failed\n"); return 2; }
	randomx_dataset ds; ds.memory = mem + guard;
	randomx_cache* cache = (randomx_cache*)calloc(1, sizeof(randomx_cache) + 64);
	cache->datasetInit = &fake_init;
	signal(SIGSEGV, on_segv);
	randomx_init_dataset(&ds, cache, start, count);
	uint8_t want[64];
	for (unsigned long i = start; i < start + count; i++) { pattern(i, want); if (memcmp(ds.memory + 64 * i, want, 64)) { printf("item %lu does not hold its own value\n", i); bad = 1; break; } }
	/* anything non-zero outside the requested range (including the guards) is an out-of-range write */
	for (size_t off = 0; off < bytes + 2 * guard; off += 4096) {
		size_t lo = off, hi = off + 4096;
		size_t rlo = guard + 64 * start, rhi = guard + 64 * (start + count);
		if (lo >= rlo && hi <= rhi) continue;
		for (size_t k = lo; k < hi && k < bytes + 2 * guard; k++) { if (k >= rlo && k < rhi) continue; if (mem[k]) { printf("byte at dataset offset %ld written outside [%lu, %lu)\n", (long)k - (long)guard, 64 * start, 64 * (start + count)); bad = 1; off = bytes + 2 * guard; break; } }
	}
	printf("init_dataset(start=%lu, count=%lu): %s\n", start, count, bad ? "VIOLATED" : "holds");
	return bad;
}
