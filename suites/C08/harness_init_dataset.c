#include "rx.c"
uint64_t rxv_ip; uint8_t* rxv_item_at;
uint64_t nondet_u64(void); unsigned long nondet_ulong(void); uint8_t nondet_u8(void);
/* STUB: memcpy as a provenance move (see contracts_dataset.h): bounds asserted, destination range havocked, the tracked item location follows the copy */
void* memcpy(void* dst, const void* src, size_t n) {
	__CPROVER_assert(n == 0 || (__CPROVER_w_ok(dst, n) && __CPROVER_r_ok(src, n)), "memcpy: source and destination ranges are valid");
	if (n > 0) {
		__CPROVER_havoc_slice(dst, n);
		if (RXV_IN_RANGE(rxv_item_at, (const uint8_t*)src, n)) {
			size_t off = (size_t)(__CPROVER_POINTER_OFFSET(rxv_item_at) - __CPROVER_POINTER_OFFSET(src));
			/* a whole item is moved only if all of its 64 bytes are inside the copied range */
			rxv_item_at = (off % 64 == 0 && off + 64 <= n) ? (uint8_t*)dst + off : (uint8_t*)0;
		} else if (RXV_IN_RANGE(rxv_item_at, (const uint8_t*)dst, n)) {
			rxv_item_at = (uint8_t*)0;
		}
	}
	return dst;
}
void h_init_dataset(void) {
	randomx_dataset* dataset; randomx_cache* cache;
	rxv_ip = nondet_u64(); rxv_item_at = (uint8_t*)0;
	randomx_init_dataset(dataset, cache, nondet_ulong(), nondet_ulong());
	__CPROVER_assert(0, "canary");
}
