/* C08-3 / C06-2 / C14: contract of initDatasetItem (src/dataset.cpp, extracted).
   Oracle: doc/specs.md 7.3 (register initialisation constants; 8 rounds of: cache line selected by cacheIndex modulo the
   number of 64-byte cache items, SuperscalarHash[i], XOR with the cache line, cacheIndex = address register; output =
   the registers in little-endian order).
   executeSuperscalar and the cache reads (load64_native) are STUBs that return arbitrary values and record their
   arguments and results in a ghost trace; the postcondition evaluates the specification over that trace.  Arbitrary
   results cover every SuperscalarHash function (C09) and every cache content; the cache is a base pointer with a
   256 MiB extent, and every read must lie inside it. */
#ifndef RXV_CONTRACTS_ITEM_H
#define RXV_CONTRACTS_ITEM_H
#define RXV_CACHE_BYTES 268435456ULL      /* 262144 KiB Argon2 memory, doc/specs.md Table 7.1.1 */
#define RXV_CACHE_ITEMS (RXV_CACHE_BYTES / 64)
extern uint8_t* rxv_cache_base;
/* ghost trace */
extern int rxv_ssh_calls, rxv_ld_calls;
extern uint64_t rxv_ssh_in[8][8], rxv_ssh_out[8][8]; extern const void* rxv_ssh_prog[8];
extern uint64_t rxv_ld_off[64], rxv_ld_val[64];
uint64_t rxv_load64_native(const void* src);

/* doc/specs.md 7.3 evaluated over the trace: true iff the trace is the specified call sequence (right program, right
   inputs to SuperscalarHash, right cache line in each round) and `out` is the little-endian image of the final registers */
#define RXV_LE64(p) ((uint64_t)(p)[0] | (uint64_t)(p)[1] << 8 | (uint64_t)(p)[2] << 16 | (uint64_t)(p)[3] << 24 \
	| (uint64_t)(p)[4] << 32 | (uint64_t)(p)[5] << 40 | (uint64_t)(p)[6] << 48 | (uint64_t)(p)[7] << 56)
#define RXV_ADDRREG_OK(i) (cache->programs[i].addrReg >= 0 && cache->programs[i].addrReg < 8)
static inline _Bool rxv_item_post(randomx_cache* cache, const uint8_t* out, uint64_t itemNumber) {
	static const uint64_t add[8] = { 0, 9298411001130361340ULL, 12065312585734608966ULL, 9306329213124626780ULL,
		5281919268842080866ULL, 10536153434571861004ULL, 3398623926847679864ULL, 9549104520008361294ULL };
	uint64_t r[8];
	_Bool ok = (rxv_ssh_calls == 8 && rxv_ld_calls == 64);
	r[0] = (itemNumber + 1) * 6364136223846793005ULL;
	for (int j = 1; j < 8; j++) r[j] = r[0] ^ add[j];
	uint64_t cacheIndex = itemNumber;
	for (int i = 0; i < 8; i++) {
		uint64_t line = (cacheIndex % RXV_CACHE_ITEMS) * 64;
		ok = ok && rxv_ssh_prog[i] == &cache->programs[i];
		for (int j = 0; j < 8; j++) ok = ok && rxv_ssh_in[i][j] == r[j] && rxv_ld_off[8 * i + j] == line + 8 * j;
		for (int j = 0; j < 8; j++) r[j] = rxv_ssh_out[i][j] ^ rxv_ld_val[8 * i + j];
		cacheIndex = r[cache->programs[i].addrReg];
	}
	for (int k = 0; k < 8; k++) ok = ok && RXV_LE64(out + 8 * k) == r[k];
	return ok;
}

void initDatasetItem(randomx_cache* cache, uint8_t* out, uint64_t itemNumber)
__CPROVER_requires(__CPROVER_is_fresh(cache, sizeof(*cache)) && __CPROVER_is_fresh(out, 64))
__CPROVER_requires(cache->memory == rxv_cache_base && rxv_ssh_calls == 0 && rxv_ld_calls == 0)
/* well-formed programs (C09): the address register is one of r0..r7 */
__CPROVER_requires(RXV_ADDRREG_OK(0) && RXV_ADDRREG_OK(1) && RXV_ADDRREG_OK(2) && RXV_ADDRREG_OK(3)
	&& RXV_ADDRREG_OK(4) && RXV_ADDRREG_OK(5) && RXV_ADDRREG_OK(6) && RXV_ADDRREG_OK(7))
/* writes the 64 output bytes and nothing shared (the ghost trace belongs to the proof) */
__CPROVER_assigns(__CPROVER_object_upto(out, 64), rxv_ssh_calls, rxv_ld_calls, __CPROVER_object_whole(rxv_ssh_in), __CPROVER_object_whole(rxv_ssh_out),
	__CPROVER_object_whole(rxv_ssh_prog), __CPROVER_object_whole(rxv_ld_off), __CPROVER_object_whole(rxv_ld_val))
__CPROVER_ensures(rxv_item_post(cache, out, itemNumber));
#endif
