/* replays a decode counterexample on the real BytecodeMachine::compileInstruction; exit 1 = contract violated natively */
#include "native_bm.hpp"
int main(int argc, char** argv) {
	Args a(argc, argv);
	Instruction instr;
	instr.opcode = a.get("opcode"); instr.dst = a.get("dst"); instr.src = a.get("src"); instr.mod = a.get("mod");
	instr.imm32 = (uint32_t)a.get("imm32");
	int i = (int)a.get("i", 10);
	NativeRegisterFile nreg;
	BytecodeMachine bm;
	bm.nreg = &nreg;
	int old[8];
	for (int r = 0; r < 8; r++) {
		char k[32]; snprintf(k, sizeof k, "registerUsage[%d]", r);
		old[r] = a.has(k) ? (int)(int32_t)a.get(k) : -1;
		bm.registerUsage[r] = old[r];
	}
	InstructionByteCode ibc;
	memset(&ibc, 0, sizeof ibc);
	bm.compileInstruction(instr, i, ibc);
	int bad = 0;
	if (!rxv_denotes(&ibc, &nreg, instr.opcode, instr.dst, instr.src, instr.mod, instr.imm32, old[instr.dst & 7])) {
		printf("decoded bytecode does not denote the specified instruction (type=%d)\n", (int)ibc.type); bad = 1;
	}
	for (int r = 0; r < 8; r++) {
		int want = spec_modifies(spec_kind_of(instr.opcode), instr.dst, instr.src, instr.imm32, r) ? i : old[r];
		if (bm.registerUsage[r] != want) { printf("last-writer[%d] = %d, specification says %d\n", r, bm.registerUsage[r], want); bad = 1; }
	}
	printf("word: opcode=%u dst=%u src=%u mod=%u imm32=0x%08x i=%d kind=%d -> %s\n", instr.opcode, instr.dst, instr.src, instr.mod, instr.imm32, i,
		spec_kind_of(instr.opcode), bad ? "VIOLATED" : "holds");
	return bad;
}
