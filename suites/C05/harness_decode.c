/* enforce the decode contract on the real (extracted) BytecodeMachine::compileInstruction for every instruction word */
#include "bm.c"
void h_decode(void) {
	struct BytecodeMachine* self;
	Instruction* instr;
	InstructionByteCode* ibc;
	int i;
	BytecodeMachine_compileInstruction(self, instr, i, ibc);
	__CPROVER_assert(0, "canary");
}
