/* Enforces the clauses of contracts_exe.h on the real bodies of exe_IMUL_R / exe_IMUL_M with the abstract product
   instantiated by C's 64-bit `*`, for all operand values, aliased and non-aliased destination/source. */
#include <stdint.h>
#include "contracts_mem.h"
#define RXV_MUL64(a, b) ((uint64_t)(a) * (uint64_t)(b))
#define RXV_EXE_NO_CONTRACT_DECLS 1
#include "bm.c"
#include "contracts_exe.h"
uint64_t nondet_u64(void); int nondet_int(void); uint32_t nondet_u32(void);
void h_exe_mul(void) {
	uint64_t x = nondet_u64(), y = nondet_u64();
	const uint64_t x0 = x, y0 = y;
	InstructionByteCode ibc;
	const int alias = ALIAS;   /* compile-time: keeps both operands syntactically the same on both sides of the equality */
	ibc.idst = &x;
	ibc.isrc = alias ? &x : &y;
	ibc.imm = nondet_u64();
	ibc.memMask = nondet_u32();
	ibc.shift = nondet_int();
	const uint64_t s0 = *ibc.isrc;
	uint8_t sp_base[8];
	rxv_sp = sp_base;
	rxv_store_count = 0;
	int pc = nondet_int(); const int pc0 = pc;
	ProgramConfiguration config;
	randomx_flags flags = nondet_int();
#if MEMFORM
	const uint32_t addr = RXV_EXE_MEM_ADDR(s0, ibc.imm, ibc.memMask);
	__CPROVER_assume((__CPROVER_size_t)addr + 8 <= RXV_SP_SIZE);          /* the contract's requires */
	BytecodeMachine_exe_IMUL_M(&ibc, &pc, sp_base, &config, flags);
	__CPROVER_assert(RXV_EXE_IMUL_R_POST(x, x0, __CPROVER_uninterpreted_mem64(addr)), "exe_IMUL_M: dst = dst * [mem]");
#else
	BytecodeMachine_exe_IMUL_R(&ibc, &pc, sp_base, &config, flags);
	__CPROVER_assert(RXV_EXE_IMUL_R_POST(x, x0, s0), "exe_IMUL_R: dst = dst * src");
#endif
	__CPROVER_assert(alias || y == y0, "frame: source unchanged");
	__CPROVER_assert(pc == pc0 && rxv_store_count == 0, "frame: pc and scratchpad unchanged");
	__CPROVER_assert(0, "canary");
}
