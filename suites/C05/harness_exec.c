/* C05-2: for every instruction word of kind KIND, every register file, scratchpad, rounding mode and version:
   real executeInstruction(bytecode produced under the decode CONTRACT) == spec_step (doc/specs.md ch.5).
   compileInstruction is replaced by its contract (modular: only `rxv_denotes` is known about the bytecode);
   mulh/smulh/rotr/rotl/rx_set_rounding_mode/reciprocal are replaced by their contracts (proved in C17/C13/C18). */
#define RXV_FP_CONTRACTS 1
#define SPEC_MUL64(a, b) __CPROVER_uninterpreted_mul64(a, b)
#define SPEC_SQRT(x) __CPROVER_uninterpreted_fsqrt(x, __CPROVER_rounding_mode)
#define SPEC_FADD(a, b) __CPROVER_uninterpreted_fadd(a, b, __CPROVER_rounding_mode)
#define SPEC_FSUB(a, b) __CPROVER_uninterpreted_fsub(a, b, __CPROVER_rounding_mode)
#define SPEC_FMUL(a, b) __CPROVER_uninterpreted_fmul(a, b, __CPROVER_rounding_mode)
#define SPEC_FDIV(a, b) __CPROVER_uninterpreted_fdiv(a, b, __CPROVER_rounding_mode)
#define SPEC_MULH(a, b) __CPROVER_uninterpreted_mulh(a, b)
#define SPEC_SMULH(a, b) ((uint64_t)__CPROVER_uninterpreted_smulh((int64_t)(a), (int64_t)(b)))
#define SPEC_RCP(d) __CPROVER_uninterpreted_rcp(d)
#include <stdint.h>
#include "contracts_mem.h"
#define SPEC_LOAD64(sp, addr) __CPROVER_uninterpreted_mem64(addr)
#define SPEC_LOAD32(sp, addr) __CPROVER_uninterpreted_mem32(addr)
double __CPROVER_uninterpreted_fadd(double, double, int);
double __CPROVER_uninterpreted_fsub(double, double, int);
double __CPROVER_uninterpreted_fmul(double, double, int);
double __CPROVER_uninterpreted_fdiv(double, double, int);
double __CPROVER_uninterpreted_fsqrt(double, int);
uint64_t __CPROVER_uninterpreted_mul64(uint64_t, uint64_t);
uint64_t __CPROVER_uninterpreted_mulh(uint64_t, uint64_t);
int64_t __CPROVER_uninterpreted_smulh(int64_t, int64_t);
uint64_t __CPROVER_uninterpreted_rcp(uint32_t);
#include "bm.c"
#include "contracts_portable.h"

#ifndef KIND
#error KIND
#endif
/* implementation type that renders spec kind KIND (IMUL_RCP executes as IMUL_R with a constant operand) */
#define RXV_IMPL_TYPE ((KIND) == S_IMUL_RCP ? InstructionType_IMUL_R : (InstructionType)(KIND))

uint8_t nondet_u8(void); uint32_t nondet_u32(void); uint64_t nondet_u64(void); int nondet_int(void); double nondet_double(void);



/* Identity transformation: CBMC resolves dereferences through value sets built from assignments, and a pointer that is
   only *constrained* (by the assumed postcondition of the replaced contract) has an empty value set.  Re-assigning
   each pointer to the candidate it is equal to does not change any value but makes the target known to symex. */
static void rxv_pointer_hints(InstructionByteCode* ibc, NativeRegisterFile* n) {
	for (int k = 0; k < 8; k++) {
		if (ibc->idst == &n->r[k]) ibc->idst = &n->r[k];
		if (ibc->isrc == &n->r[k]) ibc->isrc = &n->r[k];
	}
	for (int k = 0; k < 4; k++) {
		if (ibc->fdst == &n->f[k]) ibc->fdst = &n->f[k];
		if (ibc->fdst == &n->e[k]) ibc->fdst = &n->e[k];
		if (ibc->fsrc == &n->a[k]) ibc->fsrc = &n->a[k];
	}
	if (ibc->isrc == &ibc->imm) ibc->isrc = &ibc->imm;
	if (ibc->isrc == &BytecodeMachine_zero) ibc->isrc = &BytecodeMachine_zero;
}

static int same_bits(double a, double b) { return spec_d2u(a) == spec_d2u(b); }

void h_exec(void) {
	Instruction instr;
	instr.opcode = nondet_u8(); instr.dst = nondet_u8(); instr.src = nondet_u8(); instr.mod = nondet_u8(); instr.imm32 = nondet_u32();
	__CPROVER_assume(spec_kind_of(instr.opcode) == KIND);
	int i = nondet_int();
	__CPROVER_assume(0 <= i && i < 32768);

	NativeRegisterFile nreg;
	struct BytecodeMachine bm;
	bm.nreg = &nreg;
	for (int k = 0; k < 8; k++) { int u = nondet_int(); __CPROVER_assume(-1 <= u && u < i); bm.registerUsage[k] = u; }
	int lw = bm.registerUsage[instr.dst & 7];

	/* symbolic machine state */
	spec_state st;
	for (int k = 0; k < 8; k++) { nreg.r[k] = nondet_u64(); st.r[k] = nreg.r[k]; }
	for (int k = 0; k < 4; k++) {
		nreg.f[k].lo = nondet_double(); nreg.f[k].hi = nondet_double(); st.f[k].lo = nreg.f[k].lo; st.f[k].hi = nreg.f[k].hi;
		nreg.e[k].lo = nondet_double(); nreg.e[k].hi = nondet_double(); st.e[k].lo = nreg.e[k].lo; st.e[k].hi = nreg.e[k].hi;
		nreg.a[k].lo = nondet_double(); nreg.a[k].hi = nondet_double(); st.a[k].lo = nreg.a[k].lo; st.a[k].hi = nreg.a[k].hi;
	}
	uint8_t sp_base[8];   /* base of the scratchpad; extent RXV_SP_SIZE, see contracts_mem.h */
	uint8_t* scratchpad = sp_base;
	rxv_sp = scratchpad;
	rxv_store_count = 0;
	/* E-group masks: representation produced by randomx_vm::initialize (contract C02): 22 fraction bits | (0x300 | m4<<4)<<52 */
	ProgramConfiguration config;
	unsigned m4[2]; uint32_t frac22[2];
	for (int k = 0; k < 2; k++) {
		m4[k] = nondet_u8() & 15; frac22[k] = nondet_u32() & 0x3fffff;
		config.eMask[k] = (uint64_t)frac22[k] | ((0x300ULL | ((uint64_t)m4[k] << 4)) << 52);
	}
	randomx_flags flags = nondet_int();
	int mode = nondet_int();
	__CPROVER_assume(0 <= mode && mode < 4);
	rxv_fprc = mode; st.fprc = mode;
	__CPROVER_rounding_mode = nondet_int();
	__CPROVER_assume(0 <= __CPROVER_rounding_mode && __CPROVER_rounding_mode < 4);

	InstructionByteCode ibc;
	BytecodeMachine_compileInstruction(&bm, &instr, i, &ibc);   /* replaced by contract */


	rxv_pointer_hints(&ibc, &nreg);
	int pc = i;
	st.pc = i;
	spec_step_k(&st, scratchpad, KIND /* == spec_kind_of(instr.opcode), assumed above */, instr.dst, instr.src, instr.mod, instr.imm32, lw,
		(flags & RANDOMX_FLAG_V2) != 0, m4, frac22);

	/* Case split on the bytecode type.  The decode contract leaves at most two possibilities per instruction kind
	   (the kind itself; NOP for the no-op forms of IMUL_RCP / ISWAP_R; IMUL_R for IMUL_RCP); assigning the constant
	   inside each branch lets symbolic execution specialise the dispatch switch of the real executeInstruction.
	   The final else is an obligation: no other type is possible. */
	if (ibc.type == InstructionType_NOP) {
		ibc.type = InstructionType_NOP;
		BytecodeMachine_executeInstruction(&ibc, &pc, scratchpad, &config, flags);   /* the real code */
	} else if (ibc.type == RXV_IMPL_TYPE) {
		ibc.type = RXV_IMPL_TYPE;
		BytecodeMachine_executeInstruction(&ibc, &pc, scratchpad, &config, flags);   /* the real code */
	} else {
		__CPROVER_assert(0, "bytecode type is the specified kind (or NOP for no-op forms)");
	}

	for (int k = 0; k < 8; k++)
		__CPROVER_assert(nreg.r[k] == st.r[k], "integer register file equals specification");
	for (int k = 0; k < 4; k++) {
		__CPROVER_assert(same_bits(nreg.f[k].lo, st.f[k].lo) && same_bits(nreg.f[k].hi, st.f[k].hi), "group F equals specification");
		__CPROVER_assert(same_bits(nreg.e[k].lo, st.e[k].lo) && same_bits(nreg.e[k].hi, st.e[k].hi), "group E equals specification");
		__CPROVER_assert(same_bits(nreg.a[k].lo, st.a[k].lo) && same_bits(nreg.a[k].hi, st.a[k].hi), "group A unchanged");
	}
	__CPROVER_assert(pc == st.pc, "control flow equals specification (branch taken/target)");
	__CPROVER_assert(rxv_fprc == st.fprc, "rounding mode equals specification");
	if (st.stored) {
		__CPROVER_assert(rxv_store_count == 1 && rxv_store_off == st.store_addr && rxv_store_val == st.store_val,
			"ISTORE: exactly one 8-byte store, at the specified address, of the specified value");
	} else {
		__CPROVER_assert(rxv_store_count == 0, "scratchpad not written");
	}
	__CPROVER_assert(0, "canary");
}
