import os, sys
sys.path.insert(0, os.path.join(os.path.dirname(os.path.abspath(__file__)), "..", "common"))
import cxx_specs as S

PROPERTY = "C05"
LEVEL = "proof"
EXPLANATION = ('Proof that compileInstruction decodes every 64-bit instruction word into the bytecode the specification prescribes (kind by opcode range, operands, masks, immediates, branch target and register-usage bookkeeping) and that each of the 29 executeInstruction arms computes the specified register / scratchpad effect for all operand values, with 64x64 multiplication, floating-point lane operations and scratchpad memory as uninterpreted functions tied to the real helpers by their own body obligations.')
TRUSTED = ["suites/common/spec_isa.h: independent C reading of doc/specs.md ch.5 (the oracle)",
           "C++ -> C extraction rules of rxv/cxx2c.py (listed in extraction_rules_fired)"]
ASSUMPTIONS = []
NOT_DECIDED = []

BM_SRC = {"cxx": S.BM, "out": "bm.c", "header": True}
INC = ["@suites/common"]

KINDS = ["IADD_RS", "IADD_M", "ISUB_R", "ISUB_M", "IMUL_R", "IMUL_M", "IMULH_R", "IMULH_M", "ISMULH_R", "ISMULH_M",
         "IMUL_RCP", "INEG_R", "IXOR_R", "IXOR_M", "IROR_R", "IROL_R", "ISWAP_R", "FSWAP_R", "FADD_R", "FADD_M", "FSUB_R",
         "FSUB_M", "FSCAL_R", "FMUL_R", "FDIV_M", "FSQRT_R", "CBRANCH", "CFROUND", "ISTORE"]
EXEC_REPLACE = ["BytecodeMachine_compileInstruction", "randomx_reciprocal", "mulh", "smulh", "rotr", "rotl",
                "rx_set_rounding_mode", "load64", "load32", "store64",
                "rx_add_vec_f128", "rx_sub_vec_f128", "rx_mul_vec_f128", "rx_div_vec_f128", "rx_sqrt_vec_f128"]


def exec_ob(kind):
    return {
        "name": "exec_" + kind,
        "files": [BM_SRC, "harness_exec.c", "@suites/common/ghost_fprc.c"],
        "incdirs": INC,
        "defines": ['RXV_CONTRACTS_H="contracts_bm_exe.h"', "KIND=S_" + kind],
        "entry": "h_exec",
        "replace": EXEC_REPLACE + ["BytecodeMachine_exe_IMUL_R", "BytecodeMachine_exe_IMUL_M"],
        "cbmc_flags": ["--object-bits", "12"],
        "checks": ["--bounds-check", "--pointer-check", "--div-by-zero-check", "--undefined-shift-check", "--signed-overflow-check"],
        "expect_classes": ["assertion"],
        "expect_min": 8,
        "timeout": 1200,
        "weight": 2,
        "replay": {"prog": "replay_exec.cpp", "sources": ["src/bytecode_machine.cpp", "src/reciprocal.c", "src/instructions_portable.cpp"],
                   "flags": ["-O1", "-frounding-math", "-I/verif/suites/common"],
                   "vars": ["instr", "i", "mode", "flags", "nreg", "m4", "frac22", "bm"], "skip": r"\.i\.u\d+"},
    }


OBLIGATIONS = [
    {
        "name": "decode_contract",
        "files": [BM_SRC, "harness_decode.c"],
        "incdirs": INC,
        "defines": ['RXV_CONTRACTS_H="contracts_bm.h"'],
        "entry": "h_decode",
        "enforce": "BytecodeMachine_compileInstruction",
        "replace": ["randomx_reciprocal"],
        "expect_classes": ["postcondition", "precondition", "assigns"],
        "expect_min": 100,
        "timeout": 900,
        "replay": {"prog": "replay_decode.cpp", "sources": ["src/bytecode_machine.cpp", "src/reciprocal.c", "src/instructions_portable.cpp"],
                   "flags": ["-O1", "-I/verif/suites/common"],
                   "capture": [r"dynamic_object\$\d+\.(opcode|dst|src|mod|imm32)$", r"dynamic_object\$\d+\.(registerUsage\[\d\])l?$", r"^(i)$"]},
    },
] + [exec_ob(k) for k in KINDS] + [
    {
        "name": "exe_%s_body_alias%d" % (("IMUL_M" if mf else "IMUL_R"), al),
        "files": [BM_SRC, "harness_exe_mul.c", "@suites/common/ghost_fprc.c"],
        "incdirs": INC, "defines": ["MEMFORM=%d" % mf, "ALIAS=%d" % al], "entry": "h_exe_mul",
        "replace": ["load64"], "expect_classes": ["assertion"], "expect_min": 4, "backend": "z3",
        "checks": ["--bounds-check", "--pointer-check", "--div-by-zero-check", "--undefined-shift-check", "--signed-overflow-check"],
    } for mf in (0, 1) for al in (0, 1)
]
