import os, sys
sys.path.insert(0, os.path.join(os.path.dirname(os.path.abspath(__file__)), "..", "common"))
import cxx_specs as S

PROPERTY = "C05"
LEVEL = "proof"
EXPLANATION = ""
TRUSTED = ["suites/common/spec_isa.h: independent C reading of doc/specs.md ch.5 (the oracle)",
           "C++ -> C extraction rules of rxv/cxx2c.py (listed in extraction_rules_fired)"]
ASSUMPTIONS = []
NOT_DECIDED = []

BM_SRC = {"cxx": S.BM, "out": "bm.c", "header": True}
INC = ["@suites/common"]

OBLIGATIONS = [
    {
        "name": "decode_contract",
        "files": [BM_SRC, "harness_decode.c"],
        "incdirs": INC,
        "defines": ['RXV_CONTRACTS_H="contracts_bm.h"'],
        "entry": "h_decode",
        "enforce": "BytecodeMachine_compileInstruction",
        "replace": ["randomx_reciprocal"],
        "expect_classes": ["postcondition", "precondition", "assigns"],
        "expect_min": 100,
        "timeout": 900,
        "replay": {"prog": "replay_decode.cpp", "sources": ["src/bytecode_machine.cpp", "src/reciprocal.c", "src/instructions_portable.cpp"],
                   "flags": ["-O1", "-I/verif/suites/common"],
                   "capture": [r"dynamic_object\$\d+\.(opcode|dst|src|mod|imm32)$", r"dynamic_object\$\d+\.(registerUsage\[\d\])l?$", r"^(i)$"]},
    },
]
