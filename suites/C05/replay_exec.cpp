/* Replays an instruction-level counterexample on the real code: real compileInstruction + executeInstruction
   against spec_step (doc/specs.md ch.5) with real arithmetic and a real 2 MiB scratchpad (pseudo-random content;
   the proof's memory is abstract).  exit 1 = the real code deviates from the specification on this input. */
#include "native_bm.hpp"
#include <cfenv>
#include <vector>
static uint64_t d2u(double d) { uint64_t u; memcpy(&u, &d, 8); return u; }
static double u2d(uint64_t u) { double d; memcpy(&d, &u, 8); return d; }
int main(int argc, char** argv) {
	Args a(argc, argv);
	Instruction instr;
	instr.opcode = a.get("instr.opcode"); instr.dst = a.get("instr.dst"); instr.src = a.get("instr.src");
	instr.mod = a.get("instr.mod"); instr.imm32 = (uint32_t)a.get("instr.imm32");
	int i = (int)a.get("i", 100);
	int mode = (int)a.get("mode", 0) & 3;
	randomx_flags flags = (randomx_flags)(a.get("flags", 0) & RANDOMX_FLAG_V2);
	NativeRegisterFile nreg;
	spec_state st;
	memset(&st, 0, sizeof st);
	char k[64];
	for (int r = 0; r < 8; r++) { snprintf(k, sizeof k, "nreg.r[%dl]", r); nreg.r[r] = a.get(k, 0x0123456789abcdefULL * (r + 1)); st.r[r] = nreg.r[r]; }
	const char* grp[3] = { "f", "e", "a" };
	for (int g = 0; g < 3; g++) for (int r = 0; r < 4; r++) {
		double lo, hi;
		snprintf(k, sizeof k, "nreg.%s[%dl].lo", grp[g], r); lo = a.has(k) ? u2d(a.get(k)) : 1.5 + r + g;
		snprintf(k, sizeof k, "nreg.%s[%dl].hi", grp[g], r); hi = a.has(k) ? u2d(a.get(k)) : 2.5 + r + g;
		rx_vec_f128 v = rx_set_vec_f128(d2u(hi), d2u(lo));
		spec_f2 s2 = { lo, hi };
		if (g == 0) { nreg.f[r] = v; st.f[r] = s2; } else if (g == 1) { nreg.e[r] = v; st.e[r] = s2; } else { nreg.a[r] = v; st.a[r] = s2; }
	}
	unsigned m4[2]; uint32_t frac22[2];
	ProgramConfiguration config;
	for (int h = 0; h < 2; h++) {
		snprintf(k, sizeof k, "m4[%dl]", h); m4[h] = a.get(k, 5) & 15;
		snprintf(k, sizeof k, "frac22[%dl]", h); frac22[h] = a.get(k, 0x12345) & 0x3fffff;
		config.eMask[h] = (uint64_t)frac22[h] | ((0x300ULL | ((uint64_t)m4[h] << 4)) << 52);
	}
	std::vector<uint8_t> sp(SPEC_SCRATCHPAD_SIZE), sp0;
	uint64_t x = 0x9e3779b97f4a7c15ULL;
	for (size_t j = 0; j < sp.size(); j++) { x ^= x << 13; x ^= x >> 7; x ^= x << 17; sp[j] = (uint8_t)x; }
	sp0 = sp;
	BytecodeMachine bm;
	bm.nreg = &nreg;
	for (int r = 0; r < 8; r++) { snprintf(k, sizeof k, "bm.registerUsage[%dl]", r); bm.registerUsage[r] = a.has(k) ? (int)(int32_t)a.get(k) : -1; }
	int lw = bm.registerUsage[instr.dst & 7];
	static const int fe[4] = { FE_TONEAREST, FE_DOWNWARD, FE_UPWARD, FE_TOWARDZERO };
	st.fprc = mode; st.pc = i;
	fesetround(fe[mode]);
	spec_step(&st, sp0.data(), instr.opcode, instr.dst, instr.src, instr.mod, instr.imm32, lw, (flags & RANDOMX_FLAG_V2) != 0, m4, frac22);
	fesetround(FE_TONEAREST);
	InstructionByteCode ibc; memset(&ibc, 0, sizeof ibc);
	bm.compileInstruction(instr, i, ibc);
	rx_set_rounding_mode(mode);
	int pc = i;
	BytecodeMachine::executeInstruction(ibc, pc, sp.data(), config, flags);
	unsigned fprc = rx_get_rounding_mode();
	rx_reset_float_state();
	int bad = 0;
	for (int r = 0; r < 8; r++) if (nreg.r[r] != st.r[r]) { printf("r%d = %016llx, specification %016llx\n", r, (unsigned long long)nreg.r[r], (unsigned long long)st.r[r]); bad = 1; }
	for (int r = 0; r < 4; r++) {
		double v[2];
		rx_store_vec_f128(v, nreg.f[r]); if (d2u(v[0]) != d2u(st.f[r].lo) || d2u(v[1]) != d2u(st.f[r].hi)) { printf("f%d differs from specification\n", r); bad = 1; }
		rx_store_vec_f128(v, nreg.e[r]); if (d2u(v[0]) != d2u(st.e[r].lo) || d2u(v[1]) != d2u(st.e[r].hi)) { printf("e%d differs from specification\n", r); bad = 1; }
	}
	if (pc != st.pc) { printf("pc = %d, specification %d\n", pc, st.pc); bad = 1; }
	if (fprc != st.fprc) { printf("fprc = %u, specification %u\n", fprc, st.fprc); bad = 1; }
	if (st.stored) { for (int b = 0; b < 8; b++) sp0[st.store_addr + b] = (uint8_t)(st.store_val >> (8 * b)); }
	if (sp != sp0) { printf("scratchpad differs from specification (store at %u expected: %d)\n", st.store_addr, (int)st.stored); bad = 1; }
	printf("word: opcode=%u dst=%u src=%u mod=%u imm32=0x%08x kind=%d mode=%d v2=%d -> %s\n", instr.opcode, instr.dst, instr.src, instr.mod,
		instr.imm32, spec_kind_of(instr.opcode), mode, (flags & RANDOMX_FLAG_V2) != 0, bad ? "VIOLATED" : "holds");
	return bad;
}
