/* Class-level protection discipline of the compiled VMs (extracted from vm_compiled.cpp / vm_compiled_light.cpp), template
   parameter secureJit fixed by -DsecureJit=0/1.  JIT compiler operations are replaced by contracts_jit_prot.h. */
#define RXV_VM_PROT_CONTRACTS 1
#include VM_SRC
int rxv_prot, rxv_wx_requests, rxv_maps, rxv_unmaps, rxv_map_fail; size_t rxv_mapped_bytes, rxv_unmapped_bytes;
int nondet_int(void);
static void ghosts(void) { rxv_prot = nondet_int(); rxv_wx_requests = nondet_int(); __CPROVER_assume(rxv_wx_requests >= 0 && rxv_wx_requests < 1000); }
#ifdef LIGHT
void h_setCache(void) { struct randomx_vm* vm; randomx_cache* cache; ghosts(); CompiledLightVm_setCache(vm, cache); __CPROVER_assert(0, "canary"); }
void h_run(void) { struct randomx_vm* vm; char seed[64]; ghosts(); CompiledLightVm_run(vm, seed); __CPROVER_assert(0, "canary"); }
#else
void h_ctor(void) { struct randomx_vm* vm; ghosts(); CompiledVm_ctor(vm, nondet_int()); __CPROVER_assert(0, "canary"); }
void h_run(void) { struct randomx_vm* vm; char seed[64]; ghosts(); CompiledVm_run(vm, seed); __CPROVER_assert(0, "canary"); }
#endif
