/* enforce the contracts of contracts_vmem.h on the real virtual_memory.c (one entry per function) */
#include <stddef.h>
size_t nondet_size(void); int nondet_int(void);
extern int rxv_prot, rxv_wx_requests, rxv_maps, rxv_unmaps; extern size_t rxv_mapped_bytes, rxv_unmapped_bytes;
void* allocMemoryPages(size_t); void* allocLargePagesMemory(size_t); void setPagesRW(void*, size_t); void setPagesRX(void*, size_t);
void setPagesRWX(void*, size_t); void freePagedMemory(void*, size_t);
static void ghosts(void) { rxv_prot = nondet_int(); rxv_wx_requests = nondet_int(); rxv_maps = nondet_int(); rxv_unmaps = nondet_int();
	rxv_mapped_bytes = nondet_size(); rxv_unmapped_bytes = nondet_size();
	__CPROVER_assume(rxv_wx_requests >= 0 && rxv_wx_requests < 1000 && rxv_maps >= 0 && rxv_maps < 1000 && rxv_unmaps >= 0 && rxv_unmaps < 1000);
	__CPROVER_assume(rxv_mapped_bytes < ((size_t)1 << 50) && rxv_unmapped_bytes < ((size_t)1 << 50)); }
void h_alloc(void) { ghosts(); allocMemoryPages(nondet_size()); __CPROVER_assert(0, "canary"); }
void h_alloc_large(void) { ghosts(); allocLargePagesMemory(nondet_size()); __CPROVER_assert(0, "canary"); }
void h_rw(void) { ghosts(); char b[8]; setPagesRW(b, nondet_size()); __CPROVER_assert(0, "canary"); }
void h_rx(void) { ghosts(); char b[8]; setPagesRX(b, nondet_size()); __CPROVER_assert(0, "canary"); }
void h_rwx(void) { ghosts(); char b[8]; setPagesRWX(b, nondet_size()); __CPROVER_assert(0, "canary"); }
void h_free(void) { ghosts(); char b[8]; freePagedMemory(nondet_int() ? b : (char*)0, nondet_size()); __CPROVER_assert(0, "canary"); }
