/* Native replay for the C16 obligations (no verifier inputs needed): the library built from /repo's sources with mmap / mprotect
   wrapped by the linker.  Secure-mode scenarios - JIT cache initialisation and re-keying, secure light VM creation, hashing,
   re-binding to other caches, pipelined hashing, destruction; a non-secure JIT VM for contrast is NOT checked - must never
   request a mapping or protection that is writable and executable at once.  exit 1 on any such request. */
#include <cstdio>
#include <cstring>
#include <sys/mman.h>
#include "randomx.h"
static int wx = 0, calls = 0; static bool armed = false;
extern "C" {
void* __real_mmap(void*, size_t, int, int, int, off_t); int __real_mprotect(void*, size_t, int);
void* __wrap_mmap(void* a, size_t n, int pr, int fl, int fd, off_t off) { if (armed) { ++calls; if ((pr & PROT_WRITE) && (pr & PROT_EXEC)) { ++wx; printf("FAIL mmap(%zu bytes) requests WRITE+EXEC in secure mode\n", n); } } return __real_mmap(a, n, pr, fl, fd, off); }
int __wrap_mprotect(void* a, size_t n, int pr) { if (armed) { ++calls; if ((pr & PROT_WRITE) && (pr & PROT_EXEC)) { ++wx; printf("FAIL mprotect(%zu bytes) requests WRITE+EXEC in secure mode\n", n); } } return __real_mprotect(a, n, pr); }
}
int main() {
	randomx_flags cf = (randomx_flags)(RANDOMX_FLAG_JIT | RANDOMX_FLAG_SECURE), vf = (randomx_flags)(RANDOMX_FLAG_JIT | RANDOMX_FLAG_SECURE);
	char h[RANDOMX_HASH_SIZE];
	armed = true;
	randomx_cache* a = randomx_alloc_cache(cf); randomx_init_cache(a, "key A", 5);
	randomx_cache* b = randomx_alloc_cache(cf); randomx_init_cache(b, "key B", 5);
	randomx_vm* vm = randomx_create_vm(vf, a, nullptr);
	randomx_calculate_hash(vm, "x", 1, h);
	randomx_vm_set_cache(vm, b); randomx_calculate_hash(vm, "x", 1, h);
	randomx_vm_set_cache(vm, a); randomx_calculate_hash_first(vm, "y", 1); randomx_calculate_hash_next(vm, "z", 1, h); randomx_calculate_hash_last(vm, h);
	randomx_init_cache(a, "key C", 5); randomx_vm_set_cache(vm, a); randomx_calculate_hash(vm, "x", 1, h);
	randomx_destroy_vm(vm); randomx_release_cache(a); randomx_release_cache(b);
	armed = false;
	printf("CASES %d\n", calls);
	return wx ? 1 : 0;
}
