import os, sys
sys.path.insert(0, os.path.join(os.path.dirname(os.path.abspath(__file__)), "..", "common"))
import cxx_specs as XS

PROPERTY = "C16"
LEVEL = "proof"
EXPLANATION = ("Proof over ghost page-protection state that in secure mode no page of a JIT buffer is ever writable and executable at once and that every write / execute happens under the matching protection, for the virtual-memory wrappers, the JIT compiler's enable* methods, the light and full compiled VMs and the cache's compiler, for every flag combination.")
TRUSTED = ["stubs/mman_stub.c: ghost model of mmap/mprotect/munmap (the kernel applies what is requested)",
           "non-Linux branches of virtual_memory.c (compiled out)"]
ASSUMPTIONS = []
NOT_DECIDED = []
INC = ["@suites/common"]


def vmem(name, entry, fn):
    return {"name": name, "files": ["@repo/src/virtual_memory.c", "harness_vmem.c", "@stubs/mman_stub.c"],
            "includes": ["@suites/common/contracts_vmem.h"], "incdirs": INC, "entry": entry, "enforce": fn,
            "expect_classes": ["postcondition"], "expect_min": 5}


OBLIGATIONS = [
    vmem("vmem_alloc_is_rw", "h_alloc", "allocMemoryPages"),
    vmem("vmem_alloc_large_is_rw", "h_alloc_large", "allocLargePagesMemory"),
    vmem("vmem_set_rw", "h_rw", "setPagesRW"),
    vmem("vmem_set_rx", "h_rx", "setPagesRX"),
    vmem("vmem_set_rwx_is_the_only_wx", "h_rwx", "setPagesRWX"),
    vmem("vmem_free_unmaps_whole_size", "h_free", "freePagedMemory"),
] + [
    {"name": "jit_" + n, "files": [XS.JIT_SIZES, {"cxx": XS.JIT_PROT, "out": "jit.c", "header": True}, "harness_jit_prot.c"],
     "incdirs": INC, "defines": ['RXV_CONTRACTS_H="contracts_jit_prot.h"'], "entry": e, "enforce": fn,
     "replace": ["allocMemoryPages", "setPagesRW", "setPagesRX", "setPagesRWX", "freePagedMemory"],
     "checks": ["--bounds-check", "--pointer-check"],   # protection-state claim only; buffer extents are C06's subject
     "expect_classes": ["postcondition"], "expect_min": 3}
    for n, e, fn in (("ctor_leaves_rw", "h_ctor", "JitCompilerX86_ctor"), ("enableAll_only_wx", "h_all", "JitCompilerX86_enableAll"),
                     ("enableWriting_rw", "h_wr", "JitCompilerX86_enableWriting"), ("enableExecution_rx", "h_ex", "JitCompilerX86_enableExecution"))
]

VMREPL = ["JitCompilerX86_enableAll", "JitCompilerX86_enableWriting", "JitCompilerX86_enableExecution",
          "JitCompilerX86_generateProgram", "JitCompilerX86_generateProgramLight", "JitCompilerX86_generateSuperscalarHash",
          "JitCompilerX86_setFlags", "rxv_execute_program", "CompiledVm_execute", "VmBase_generateProgram", "randomx_vm_initialize"]
OBLIGATIONS += [
    {"name": "%s_%s_secureJit%d" % (("light" if light else "full"), n, sj),
     "files": [{"cxx": (XS.VM_COMPILED_LIGHT if light else XS.VM_COMPILED), "out": "vm.c", "header": True}, "harness_vm_prot.c"],
     "incdirs": INC,
     "defines": ['RXV_CONTRACTS_H="contracts_vm_prot.h"', 'VM_SRC="vm.c"', "secureJit=%d" % sj, "softAes=0", "RXV_VM_PROT_CONTRACTS=1"] + (["LIGHT=1"] if light else []),
     "entry": e, "enforce": fn,
     "replace": (["JitCompilerX86_enableWriting", "JitCompilerX86_enableExecution", "VmBase_generateProgram", "randomx_vm_initialize"] +
                 (["JitCompilerX86_generateSuperscalarHash"] if n == "setCache" else []) +
                 (["JitCompilerX86_generateProgramLight", "CompiledVm_execute"] if (light and n == "run") else []) +
                 (["JitCompilerX86_generateProgram", "rxv_execute_program", "JitCompilerX86_enableAll", "JitCompilerX86_setFlags"] if not light else [])),
     "checks": ["--bounds-check", "--pointer-check"],
     "expect_classes": ["postcondition", "precondition"], "expect_min": 5}
    for light, n, e, fn in ((1, "setCache", "h_setCache", "CompiledLightVm_setCache"), (1, "run", "h_run", "CompiledLightVm_run"),
                            (0, "ctor", "h_ctor", "CompiledVm_ctor"), (0, "run", "h_run", "CompiledVm_run"))
    for sj in (1, 0)
]

OBLIGATIONS += [dict(XS.CREATE_VM_OB, name="create_vm_secure_flag_selects_secure_class")]

OBLIGATIONS += [{
    "name": "cache_jit_buffer_rw_then_rx",
    "files": [{"cxx": XS.DATASET_COMPILE, "out": "ds.c", "header": True}, "harness_cache_prot.c"],
    "incdirs": INC, "defines": ['RXV_CONTRACTS_H="contracts_vm_prot.h"', "RXV_CACHE_PROT=1", "LIGHT=1"],
    "entry": "h_init_cache_compile", "enforce": "initCacheCompile",
    "replace": ["initCache", "JitCompilerX86_enableWriting", "JitCompilerX86_enableExecution", "JitCompilerX86_generateSuperscalarHash",
                "JitCompilerX86_generateDatasetInitCode"],
    "checks": ["--bounds-check", "--pointer-check"],
    "expect_classes": ["postcondition", "precondition"], "expect_min": 4,
}]

# native replay shared by every obligation of this suite: secure-mode scenarios with mmap / mprotect wrapped by the linker
WX_REPLAY = {"prog": "@suites/C16/replay_wx.cpp", "no_args": True, "sources": XS.LIB_SOURCES,
             "flags": ["-O1", "-march=native", "-Wl,--wrap=mmap", "-Wl,--wrap=mprotect"]}
for _o in OBLIGATIONS:
    _o.setdefault("replay", WX_REPLAY)
