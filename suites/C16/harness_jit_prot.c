/* JitCompilerX86 constructor / enable* (extracted from jit_compiler_x86.cpp) against contracts_jit_prot.h;
   the virtual_memory.c functions are replaced by their contracts (enforced in the vmem_* obligations). */
#include "jit_sizes.h"
#include "jit.c"
/* STUB: the constructor's copies of the static code blobs are ignored here (their extents are C06's subject) */
void* memcpy(void* d, const void* s, size_t n) { return d; }
int rxv_prot, rxv_wx_requests, rxv_maps, rxv_unmaps, rxv_map_fail; size_t rxv_mapped_bytes, rxv_unmapped_bytes;
int nondet_int(void);
static void ghosts(void) { rxv_prot = nondet_int(); rxv_wx_requests = nondet_int(); __CPROVER_assume(rxv_wx_requests >= 0 && rxv_wx_requests < 1000);
	rxv_maps = 0; rxv_unmaps = 0; rxv_mapped_bytes = 0; rxv_unmapped_bytes = 0; }
void h_ctor(void) { struct JitCompilerX86 c; ghosts(); JitCompilerX86_ctor(&c); __CPROVER_assert(0, "canary"); }
void h_all(void) { struct JitCompilerX86 c; ghosts(); JitCompilerX86_enableAll(&c); __CPROVER_assert(0, "canary"); }
void h_wr(void) { struct JitCompilerX86 c; ghosts(); JitCompilerX86_enableWriting(&c); __CPROVER_assert(0, "canary"); }
void h_ex(void) { struct JitCompilerX86 c; ghosts(); JitCompilerX86_enableExecution(&c); __CPROVER_assert(0, "canary"); }
