/* C16-5: the cache-owned JIT buffer (compiled dataset initialiser): initCacheCompile (extracted from dataset.cpp)
   makes the buffer writable, generates, then makes it executable - unconditionally. */
#define RXV_VM_PROT_CONTRACTS 1
#define secureJit 1
#include "ds.c"
int rxv_prot, rxv_wx_requests, rxv_maps, rxv_unmaps, rxv_map_fail; size_t rxv_mapped_bytes, rxv_unmapped_bytes;
int nondet_int(void);
void h_init_cache_compile(void) {
	randomx_cache* cache; char key[4];
	rxv_prot = nondet_int(); rxv_wx_requests = nondet_int(); __CPROVER_assume(rxv_wx_requests >= 0 && rxv_wx_requests < 1000);
	initCacheCompile(cache, key, 4);
	__CPROVER_assert(0, "canary");
}
