/* executeSuperscalar (src/superscalar.cpp, extracted): the SuperscalarHash interpreter.
   (a) for EVERY program size and every well-formed instruction at every position: memory safety, termination and frame
       (only r[0..7] is written) - loop contract; "the instruction at position j" is a stand-in returning an arbitrary
       well-formed instruction (any program);
   (b) one instruction: the register file afterwards is the one Table 6.1.1 of doc/specs.md prescribes (spec_ss_step), for all
       register values - harness over a one-instruction program with the real accessor.
   Stand-ins with contracts: mulh / smulh (uninterpreted; the portable bodies are property C17), randomx_reciprocal (C18). */
#ifndef RXV_CONTRACTS_SS_EXEC_H
#define RXV_CONTRACTS_SS_EXEC_H
/* the three in-line 64-bit products `r[dst] *= x` are rewritten by the extraction recipe into r[dst] = RXV_MUL64(r[dst], x)
   (the identity when RXV_MUL64 is C's `*`); in the step obligation the product is an uninterpreted function on both sides */
uint64_t __CPROVER_uninterpreted_mul64(uint64_t, uint64_t);
#ifndef RXV_MUL64
#define RXV_MUL64(a, b) __CPROVER_uninterpreted_mul64(a, b)
#endif
uint64_t __CPROVER_uninterpreted_mulh(uint64_t, uint64_t);
uint64_t __CPROVER_uninterpreted_smulh(uint64_t, uint64_t);
uint64_t __CPROVER_uninterpreted_rcp(uint32_t);
#ifdef RXV_EXEC_STANDINS_AS_FUNCTIONS
/* every-size obligation: the same stand-ins as harness functions (harness_ss_exec.c) - per-call contract replacement made
   cbmc's symbolic execution of the loop step run out of memory */
uint64_t rotr(uint64_t a, unsigned int b); uint64_t mulh(uint64_t a, uint64_t b); int64_t smulh(int64_t a, int64_t b); uint64_t randomx_reciprocal(uint32_t divisor);
#else
/* rotr is defined in instructions_portable.cpp (another translation unit): contract = rotation right by b mod 64 (enforced on the portable body in C17) */
uint64_t rotr(uint64_t a, unsigned int b) __CPROVER_requires(1) __CPROVER_assigns()
__CPROVER_ensures(__CPROVER_return_value == ((b & 63) ? ((a >> (b & 63)) | (a << (64 - (b & 63)))) : a));
uint64_t mulh(uint64_t a, uint64_t b) __CPROVER_requires(1) __CPROVER_assigns() __CPROVER_ensures(__CPROVER_return_value == __CPROVER_uninterpreted_mulh(a, b));
int64_t smulh(int64_t a, int64_t b) __CPROVER_requires(1) __CPROVER_assigns() __CPROVER_ensures((uint64_t)__CPROVER_return_value == __CPROVER_uninterpreted_smulh((uint64_t)a, (uint64_t)b));
uint64_t randomx_reciprocal(uint32_t divisor)
/* the generator never emits IMUL_RCP with a zero or power-of-two divisor (C09 operand rules / C18) */
__CPROVER_requires(divisor != 0 && (divisor & (divisor - 1)) != 0)
__CPROVER_assigns() __CPROVER_ensures(__CPROVER_return_value == __CPROVER_uninterpreted_rcp((uint32_t)divisor));

#endif
/* well-formed SuperscalarHash instruction (Table 6.1.1): one of the 14 kinds, registers r0-r7; with a reciprocal cache the
   immediate of IMUL_RCP is an index into it, without one it is the divisor itself */
extern rxv_u64vec* g_recip;
#define RXV_SS_WF(in) ((in)->opcode < 14 && (in)->dst < 8 && (in)->src < 8 && \
	((in)->opcode != SuperscalarInstructionType_IMUL_RCP || (g_recip != NULL ? load32(&(in)->imm32) < g_recip->size \
		: (load32(&(in)->imm32) != 0 && (load32(&(in)->imm32) & (load32(&(in)->imm32) - 1)) != 0))))
extern Instruction g_instr;
#ifdef RXV_EXEC_STANDINS_AS_FUNCTIONS
static Instruction* rxv_any_instruction(struct SuperscalarProgram* self, int pc);
#else
static Instruction* rxv_any_instruction(struct SuperscalarProgram* self, int pc)
__CPROVER_requires(pc >= 0 && (uint32_t)pc < self->size)
__CPROVER_assigns(g_instr)
__CPROVER_ensures(__CPROVER_return_value == &g_instr && RXV_SS_WF(&g_instr));

#endif
void executeSuperscalar(int_reg_t* r, SuperscalarProgram* prog, rxv_u64vec *reciprocals)
__CPROVER_requires(__CPROVER_is_fresh(r, 64) && __CPROVER_is_fresh(prog, sizeof(*prog)) && prog->size <= SuperscalarMaxSize)
/* the reciprocal cache, when present, is a vector of any length (the harness allocates it with a symbolic size) */
__CPROVER_requires(reciprocals == g_recip && (reciprocals == NULL || (__CPROVER_r_ok(reciprocals, sizeof(*reciprocals))
	&& __CPROVER_r_ok(reciprocals->data, reciprocals->size * sizeof(uint64_t)))))
__CPROVER_assigns(__CPROVER_object_upto(r, 64), g_instr)
__CPROVER_ensures(1);
#define RXV_SS_LOOP_INVARIANT __CPROVER_assigns(j, __CPROVER_object_upto(r, 64), g_instr) __CPROVER_loop_invariant(j <= prog->size) __CPROVER_decreases(prog->size - j)
#endif
