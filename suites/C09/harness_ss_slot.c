#include "sl.c"
/* type tokens and the candidate tables of Table 6.3.2 (re-stated; the extraction checks the source text on every run) */
static char tok_obj[14];
const SuperscalarInstructionInfo* rxv_tok[14]; const SuperscalarInstructionInfo *slot_3[2], *slot_3L[4], *slot_4[2], *slot_7[2], *slot_8[2], *slot_9[2], *slot_10, *rxv_info_IMUL_R;
unsigned g_creates, g_draws; const SuperscalarInstructionInfo* g_created_info;
uint8_t nondet_u8(void); int nondet_int(void); _Bool nondet_bool(void); unsigned nondet_unsigned(void);
uint8_t rxv_gen_u8(Blake2Generator* gen) { g_draws++; return nondet_u8(); }
void rxv_create(struct SuperscalarInstruction* self, const SuperscalarInstructionInfo* info, Blake2Generator* gen) { g_creates++; g_created_info = info; }
#define TOK(x) rxv_tok[SuperscalarInstructionType_##x]
void h_slot(void) { struct SuperscalarInstruction* s; Blake2Generator* gen;
	for (int i = 0; i < 14; i++) rxv_tok[i] = (const SuperscalarInstructionInfo*)&tok_obj[i];
	slot_3[0] = TOK(ISUB_R); slot_3[1] = TOK(IXOR_R); slot_3L[0] = TOK(ISUB_R); slot_3L[1] = TOK(IXOR_R); slot_3L[2] = TOK(IMULH_R); slot_3L[3] = TOK(ISMULH_R);
	slot_4[0] = TOK(IROR_C); slot_4[1] = TOK(IADD_RS); slot_7[0] = TOK(IXOR_C7); slot_7[1] = TOK(IADD_C7); slot_8[0] = TOK(IXOR_C8); slot_8[1] = TOK(IADD_C8);
	slot_9[0] = TOK(IXOR_C9); slot_9[1] = TOK(IADD_C9); slot_10 = TOK(IMUL_RCP); rxv_info_IMUL_R = TOK(IMUL_R);
	g_draws = nondet_unsigned();
	SuperscalarInstruction_createForSlot(s, gen, nondet_int(), nondet_int(), nondet_bool(), nondet_bool()); __CPROVER_assert(0, "canary"); }
