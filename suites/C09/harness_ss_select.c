#include "ss.c"
SuperscalarInstructionType g_type; unsigned g_draws, g_r;
int nondet_int(void); unsigned nondet_unsigned(void); _Bool nondet_bool(void);
static void ghosts(void) { g_type = (SuperscalarInstructionType)nondet_int(); g_draws = nondet_unsigned(); g_r = nondet_unsigned(); }
void h_select_dst(void) { struct SuperscalarInstruction* s; RegisterInfo* regs; Blake2Generator* gen; ghosts();
	SuperscalarInstruction_selectDestination(s, nondet_int(), nondet_bool(), regs, gen); __CPROVER_assert(0, "canary"); }
void h_select_src(void) { struct SuperscalarInstruction* s; RegisterInfo* regs; Blake2Generator* gen; ghosts();
	SuperscalarInstruction_selectSource(s, nondet_int(), regs, gen); __CPROVER_assert(0, "canary"); }
