#include "sc.c"
SuperscalarInstructionType g_type; unsigned g_draws;
int nondet_int(void); uint8_t nondet_u8(void); uint32_t nondet_u32(void);
int rxv_info_type(const SuperscalarInstructionInfo* info) { return g_type; }
uint8_t rxv_gen_u8(Blake2Generator* gen) { g_draws++; return nondet_u8(); }
uint32_t rxv_gen_u32(Blake2Generator* gen) { g_draws++; return nondet_u32(); }
void h_create(void) { struct SuperscalarInstruction* s; const SuperscalarInstructionInfo* info; Blake2Generator* gen;
	g_type = (SuperscalarInstructionType)nondet_int(); SuperscalarInstruction_create(s, info, gen); __CPROVER_assert(0, "canary"); }
