import os, sys
sys.path.insert(0, os.path.join(os.path.dirname(os.path.abspath(__file__)), "..", "common"))
import cxx_specs as XS
from imports import imported

PROPERTY = "C09"
LEVEL = "proof"
EXPLANATION = ""
TRUSTED = []
ASSUMPTIONS = []
NOT_DECIDED = []
INC = ["@suites/common"]


def sel(name, entry, fn):
    return {"name": name, "files": [{"cxx": XS.SS_SELECT, "out": "ss.c", "header": True}, "harness_ss_select.c"], "incdirs": INC,
            "defines": ['RXV_CONTRACTS_H="contracts_ss_select.h"'], "entry": entry, "enforce": fn,
            "replace": ["rxv_info_type", "rxv_gen_u32"], "unwind": 9,
            "checks": ["--bounds-check", "--pointer-check", "--div-by-zero-check", "--signed-overflow-check"],
            "expect_classes": ["postcondition", "assigns"], "expect_min": 4}


OBLIGATIONS = [
    sel("select_destination_obeys_operand_rules_and_frame", "h_select_dst", "SuperscalarInstruction_selectDestination"),
    sel("select_source_obeys_operand_rules_and_frame", "h_select_src", "SuperscalarInstruction_selectSource"),
]
