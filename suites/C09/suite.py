import os, sys
sys.path.insert(0, os.path.join(os.path.dirname(os.path.abspath(__file__)), "..", "common"))
import cxx_specs as XS
from imports import imported

PROPERTY = "C09"
LEVEL = "proof"
EXPLANATION = ("Proof of the operand-selection rules of the SuperscalarHash generator on the real selectDestination / selectSource / selectRegister (ready at the cycle, distinct from the source unless allowed, no chained multiplication unless permitted, not the same group and parameter twice, r5 never the destination of IADD_RS and forced as source when it is one of two candidates) with their frame, of DecoderBuffer::fetchNext (decode-group choice of 6.3.1), of createForSlot (instruction types per slot size, Table 6.3.2), of scheduleUop (first free compatible port in the order P5, P0, P1, for every port map: loop contract) and scheduleMop (first cycle at which all micro-ops of the macro-op can execute; a query leaves the map unchanged), of SuperscalarInstruction::create (rotation counts 1..63, reciprocal divisors neither zero nor a power of two, zero immediates / mod bytes where the table has none, operation groups), and of the SuperscalarHash interpreter executeSuperscalar (each instruction kind computes what Table 6.1.1 prescribes for all register values; memory safety, frame and termination for every program of well-formed instructions, loop contract), and of the control skeleton of generateSuperscalar with all callees as range-only stand-ins: at most 3*170+2 instructions are emitted and all inside the program buffer, no instruction is created after a macro-op was scheduled at a cycle >= 170 (the termination rule of 6.3), both loops terminate. The scheduler, decoder-buffer choice, termination and the equality of the generated programs with the specification's generator are not decided.")
TRUSTED = ['the six decode-group objects and the slot candidate tables are re-stated in harness_ss_fetch.c / harness_ss_slot.c (C++ constructors are dropped by the extraction); the extraction checks on every run that the source text still initialises them as in Table 6.3.1 (source_must_match), a change there is reported as undecided', 'mulh / smulh / rotr / randomx_reciprocal stand-ins with contracts (their bodies: C17, C18); the three in-line 64-bit products of executeSuperscalar are rewritten to RXV_MUL64 by the extraction (uninterpreted in the step obligation)', 'stand-ins with contracts: instruction-type query (info_->getType()) and generator draw (Blake2Generator::getUInt32)', 'std::vector<int> of candidate registers is a fixed-capacity (8) list stand-in; exceeding the capacity is an assertion failure']
ASSUMPTIONS = []
NOT_DECIDED = ['what the remaining generator stand-ins compute: macro-op tables (SuperscalarInstructionInfo)', 'termination of the two rejection loops in create (probabilistic)', "equality of the eight generated programs with the specification's generator for every key", 'generateSuperscalarCode (native code) vs executeSuperscalar equivalence', 'address-register choice (longest dependency chain)']
INC = ["@suites/common"]


def sel(name, entry, fn):
    return {"name": name, "files": [{"cxx": XS.SS_SELECT, "out": "ss.c", "header": True}, "harness_ss_select.c"], "incdirs": INC,
            "defines": ['RXV_CONTRACTS_H="contracts_ss_select.h"'], "entry": entry, "enforce": fn,
            "replace": ["rxv_info_type", "rxv_gen_u32"], "unwind": 9,
            "checks": ["--bounds-check", "--pointer-check", "--div-by-zero-check", "--signed-overflow-check"],
            "expect_classes": ["postcondition", "assigns"], "expect_min": 4}


OBLIGATIONS = [
    sel("select_destination_obeys_operand_rules_and_frame", "h_select_dst", "SuperscalarInstruction_selectDestination"),
    sel("select_source_obeys_operand_rules_and_frame", "h_select_src", "SuperscalarInstruction_selectSource"),
    {"name": "execute_superscalar_safe_framed_terminating_for_every_program", "incdirs": INC,
     "files": [{"cxx": dict(XS.SS_EXEC, pre_rewrites=XS.SS_EXEC["pre_rewrites"] + [{"name": "instruction at position j -> any well-formed instruction", "pattern": r"prog\(j\)", "repl": "(*rxv_any_instruction(&prog, j))"}]),
                "out": "ss.c", "header": True, "loops": [{"function": "executeSuperscalar", "expect_loops": 1, "loops": {"0": "RXV_SS_LOOP_INVARIANT"}}]}, "harness_ss_exec.c"],
     "defines": ['RXV_CONTRACTS_H="contracts_ss_exec.h"', "EVERY_SIZE=1", "RXV_EXEC_STANDINS_AS_FUNCTIONS=1"], "entry": "h_exec_all", "enforce": "executeSuperscalar",
     "replace": [], "loop_contracts": True, "cbmc_flags": ["--object-bits", "12"],      "checks": ["--bounds-check", "--pointer-check", "--div-by-zero-check", "--undefined-shift-check", "--signed-overflow-check"],
     "expect_classes": ["loop_invariant_step", "precondition"], "expect_min": 10},
    {"name": "execute_superscalar_step_equals_table_6_1_1", "incdirs": INC,
     "files": [{"cxx": XS.SS_EXEC, "out": "ss.c", "header": True}, "harness_ss_exec.c"],
     "defines": ['RXV_CONTRACTS_H="contracts_ss_exec.h"'], "entry": "h_exec_step", "replace": ["mulh", "smulh", "rotr", "randomx_reciprocal"], "unwind": 9,
     "checks": ["--bounds-check", "--pointer-check", "--div-by-zero-check", "--undefined-shift-check", "--signed-overflow-check"],
     "expect_classes": ["assertion"], "expect_min": 8},
    {"name": "generator_skeleton_program_bounds_termination_rule_and_termination", "incdirs": INC,
     "files": [{"cxx": XS.SS_GENERATE, "out": "sg.c", "header": True,
                "loops": [{"function": "generateSuperscalar", "expect_loops": 6,
                           "loops": {"0": "RXV_GEN_OUTER_INVARIANT", "1": "RXV_GEN_INNER_INVARIANT", "4": "RXV_GEN_ASIC_INVARIANT"}}]}, "harness_ss_generate.c"],
     "defines": ['RXV_CONTRACTS_H="contracts_ss_generate.h"', "RXV_STANDINS_AS_FUNCTIONS=1"], "entry": "h_generate", "enforce": "generateSuperscalar",
     "replace": [],
     "loop_contracts": True, "pre_unwindset": ["generateSuperscalar.0:5", "generateSuperscalar.1:5", "generateSuperscalar.5:9"], "unwind": 30, "cbmc_flags": ["--object-bits", "12"],
     "checks": ["--bounds-check", "--pointer-check", "--div-by-zero-check", "--undefined-shift-check", "--no-signed-overflow-check"],
     "expect_classes": ["loop_invariant_step", "precondition", "postcondition"], "expect_min": 20, "timeout": 2400, "mem_gb": 30, "backend": "kissat"},
    {"name": "create_sets_immediates_and_groups_as_table_6_1_1", "incdirs": INC,
     "files": [{"cxx": XS.SS_CREATE, "out": "sc.c", "header": True,
                "loops": [{"function": "SuperscalarInstruction_create", "expect_loops": 2, "loops": {"0": "RXV_CREATE_RETRY_LOOP", "1": "RXV_CREATE_RETRY_LOOP"}}]}, "harness_ss_create.c"],
     "defines": ['RXV_CONTRACTS_H="contracts_ss_create.h"'], "entry": "h_create", "enforce": "SuperscalarInstruction_create", "replace": [], "loop_contracts": True,
     "checks": ["--bounds-check", "--pointer-check", "--div-by-zero-check", "--undefined-shift-check", "--signed-overflow-check"],
     "expect_classes": ["postcondition", "loop_invariant_step"], "expect_min": 8},
    {"name": "fetch_next_selects_decode_group_as_6_3_1", "incdirs": INC,
     "files": [{"cxx": XS.SS_FETCH, "out": "sf.c", "header": True}, "harness_ss_fetch.c"],
     "defines": ['RXV_CONTRACTS_H="contracts_ss_fetch.h"'], "entry": "h_fetch", "enforce": "DecoderBuffer_fetchNext", "replace": [],
     "checks": ["--bounds-check", "--pointer-check", "--div-by-zero-check", "--undefined-shift-check", "--signed-overflow-check"],
     "expect_classes": ["postcondition"], "expect_min": 1},
    {"name": "create_for_slot_chooses_types_of_table_6_3_2", "incdirs": INC,
     "files": [{"cxx": XS.SS_CREATE_FOR_SLOT, "out": "sl.c", "header": True}, "harness_ss_slot.c"],
     "defines": ['RXV_CONTRACTS_H="contracts_ss_slot.h"'], "entry": "h_slot", "enforce": "SuperscalarInstruction_createForSlot", "replace": [], "unwind": 16,
     "checks": ["--bounds-check", "--pointer-check", "--div-by-zero-check", "--undefined-shift-check", "--signed-overflow-check"],
     "expect_classes": ["postcondition"], "expect_min": 2},
] + [
    {"name": "schedule_uop_first_free_port_P5_P0_P1_commit%d" % c, "incdirs": INC,
     "files": [{"cxx": XS.SS_SCHEDULE_UOP, "out": "su.c", "header": True,
                "loops": [{"function": "scheduleUop", "expect_loops": 1, "loops": {"0": "RXV_UOP_LOOP_INVARIANT"}}]}, "harness_ss_uop.c"],
     "defines": ['RXV_CONTRACTS_H="contracts_ss_uop.h"', "RXV_COMMIT=%d" % c], "entry": "h_uop", "enforce": "scheduleUop", "replace": [], "loop_contracts": True, "unwind": 180,
     "checks": ["--bounds-check", "--pointer-check", "--div-by-zero-check", "--undefined-shift-check", "--signed-overflow-check"],
     "expect_classes": ["postcondition", "loop_invariant_step"], "expect_min": 6, "timeout": 900}
    for c in (0, 1)
] + [
    {"name": "schedule_mop_first_cycle_all_uops_can_execute_commit%d" % c, "incdirs": INC,
     "files": [{"cxx": XS.SS_SCHEDULE_MOP, "out": "sm.c", "header": True,
                "loops": [{"function": "scheduleMop", "expect_loops": 1, "loops": {"0": "RXV_MOP_LOOP_INVARIANT"}}]}, "harness_ss_mop.c"],
     "defines": ['RXV_CONTRACTS_H="contracts_ss_mop.h"', "RXV_COMMIT=%d" % c], "entry": "h_mop", "enforce": "scheduleMop", "replace": [], "loop_contracts": True,
     "checks": ["--bounds-check", "--pointer-check", "--div-by-zero-check", "--undefined-shift-check", "--signed-overflow-check"],
     "expect_classes": ["postcondition", "loop_invariant_step"], "expect_min": 4, "timeout": 900}
    for c in (0, 1)
]
