import os, sys
sys.path.insert(0, os.path.join(os.path.dirname(os.path.abspath(__file__)), "..", "common"))
import cxx_specs as XS
from imports import imported

PROPERTY = "C09"
LEVEL = "proof"
EXPLANATION = ("Proof of the operand-selection rules of the SuperscalarHash generator on the real selectDestination / selectSource / selectRegister (ready at the cycle, distinct from the source unless allowed, no chained multiplication unless permitted, not the same group and parameter twice, r5 never the destination of IADD_RS and forced as source when it is one of two candidates) with their frame. The scheduler, decoder-buffer choice, termination and the equality of the generated programs with the specification's generator are not decided.")
TRUSTED = ['stand-ins with contracts: instruction-type query (info_->getType()) and generator draw (Blake2Generator::getUInt32)', 'std::vector<int> of candidate registers is a fixed-capacity (8) list stand-in; exceeding the capacity is an assertion failure']
ASSUMPTIONS = []
NOT_DECIDED = ['generateSuperscalar scheduler (port map, decode buffers, throw-away counter, termination, program size bounds)', "equality of the eight generated programs with the specification's generator for every key", 'executeSuperscalar vs generateSuperscalarCode (native code) equivalence', 'address-register choice (longest dependency chain)']
INC = ["@suites/common"]


def sel(name, entry, fn):
    return {"name": name, "files": [{"cxx": XS.SS_SELECT, "out": "ss.c", "header": True}, "harness_ss_select.c"], "incdirs": INC,
            "defines": ['RXV_CONTRACTS_H="contracts_ss_select.h"'], "entry": entry, "enforce": fn,
            "replace": ["rxv_info_type", "rxv_gen_u32"], "unwind": 9,
            "checks": ["--bounds-check", "--pointer-check", "--div-by-zero-check", "--signed-overflow-check"],
            "expect_classes": ["postcondition", "assigns"], "expect_min": 4}


OBLIGATIONS = [
    sel("select_destination_obeys_operand_rules_and_frame", "h_select_dst", "SuperscalarInstruction_selectDestination"),
    sel("select_source_obeys_operand_rules_and_frame", "h_select_src", "SuperscalarInstruction_selectSource"),
]
