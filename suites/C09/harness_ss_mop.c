#include "sm.c"
int g_c, g_dep, g_elim, g_simple, g_u1, g_u2;
int nondet_int(void);
int rxv_mop_dependent(const MacroOp* m) { return g_dep; } int rxv_mop_eliminated(const MacroOp* m) { return g_elim; } int rxv_mop_simple(const MacroOp* m) { return g_simple; }
int rxv_mop_uop1(const MacroOp* m) { return g_u1; } int rxv_mop_uop2(const MacroOp* m) { return g_u2; }
/* scheduleUop<false> as decided by schedule_uop_*_commit0: first cycle >= the start with a free compatible port, or -1; map unchanged */
int rxv_uop_probe(int uop, int portBusy[CYCLE_MAP_SIZE][3], int cycle) { int x = nondet_int();
	__CPROVER_assume(x == -1 || (x >= cycle && x < CYCLE_MAP_SIZE && RXV_ANY_FREE_IN(portBusy, uop, x)));
	__CPROVER_assume(!(g_c >= cycle && (x == -1 || g_c < x)) || !RXV_ANY_FREE_IN(portBusy, uop, g_c));
	return x; }
/* scheduleUop<true> as decided by schedule_uop_*_commit1: same result, and the first free compatible port of that cycle takes the micro-op */
int rxv_uop_commit(int uop, int portBusy[CYCLE_MAP_SIZE][3], int cycle) { int x = rxv_uop_probe(uop, portBusy, cycle);
	if (x >= 0) { int p = RXV_FREE_IN(portBusy, uop, x, 2) ? 2 : RXV_FREE_IN(portBusy, uop, x, 0) ? 0 : 1; portBusy[x][p] = uop; }
	return x; }
int rxv_uop_by_mode(int uop, int portBusy[CYCLE_MAP_SIZE][3], int cycle) { return RXV_COMMIT ? rxv_uop_commit(uop, portBusy, cycle) : rxv_uop_probe(uop, portBusy, cycle); }
void h_mop(void) { int (*map)[3]; const MacroOp* mop; g_c = nondet_int(); g_dep = nondet_int() != 0; g_elim = nondet_int() != 0; g_simple = nondet_int() != 0; g_u1 = nondet_int(); g_u2 = nondet_int();
	scheduleMop(mop, map, nondet_int(), nondet_int()); __CPROVER_assert(0, "canary"); }
