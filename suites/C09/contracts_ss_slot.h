/* SuperscalarInstruction::createForSlot (src/superscalar.cpp, extracted): which instruction types may be created for a decode
   slot, doc/specs.md Table 6.3.2:  3 bytes: ISUB_R, IXOR_R (last slot of the group: also IMULH_R, ISMULH_R);  4 bytes: IMUL_R in
   decode group 4 unless it is the last slot, otherwise IROR_C or IADD_RS;  7 / 8 / 9 bytes: IADD_C / IXOR_C of that width;
   10 bytes: IMUL_RCP;  no other slot size occurs (the UNREACHABLE default is an obligation); exactly one instruction is created.
   The candidate tables slot_* are static arrays of pointers to C++-constructed objects that the extraction drops: the harness
   re-states them over type tokens and the extraction checks the source text on every run (source_must_match). */
#ifndef RXV_CONTRACTS_SS_SLOT_H
#define RXV_CONTRACTS_SS_SLOT_H
extern const SuperscalarInstructionInfo* rxv_tok[14];      /* one token object per instruction type, indexed by SuperscalarInstructionType */
extern const SuperscalarInstructionInfo *slot_3[2], *slot_3L[4], *slot_4[2], *slot_7[2], *slot_8[2], *slot_9[2], *slot_10, *rxv_info_IMUL_R;
extern unsigned g_creates, g_draws; extern const SuperscalarInstructionInfo* g_created_info;
uint8_t rxv_gen_u8(Blake2Generator* gen);
void rxv_create(struct SuperscalarInstruction* self, const SuperscalarInstructionInfo* info, Blake2Generator* gen);
#define T(x) SuperscalarInstructionType_##x
#define IS(x) (g_created_info == rxv_tok[T(x)])
static void SuperscalarInstruction_createForSlot(struct SuperscalarInstruction* self, Blake2Generator* gen, int slotSize, int fetchType, bool isLast, bool isFirst)
__CPROVER_requires(slotSize == 3 || slotSize == 4 || slotSize == 7 || slotSize == 8 || slotSize == 9 || slotSize == 10)   /* the slot sizes of Table 6.3.1 */
__CPROVER_requires(g_creates == 0)
__CPROVER_assigns(g_creates, g_draws, g_created_info)
__CPROVER_ensures(g_creates == 1)
__CPROVER_ensures(slotSize == 3 ? (isLast ? (IS(ISUB_R) || IS(IXOR_R) || IS(IMULH_R) || IS(ISMULH_R)) : (IS(ISUB_R) || IS(IXOR_R)))
	: slotSize == 4 ? ((fetchType == 4 && !isLast) ? IS(IMUL_R) : (IS(IROR_C) || IS(IADD_RS)))
	: slotSize == 7 ? (IS(IADD_C7) || IS(IXOR_C7)) : slotSize == 8 ? (IS(IADD_C8) || IS(IXOR_C8)) : slotSize == 9 ? (IS(IADD_C9) || IS(IXOR_C9))
	: IS(IMUL_RCP));
#endif
