#include <stdlib.h>
#include "ss.c"
#include "spec_ss.h"
rxv_u64vec* g_recip; Instruction g_instr;
uint64_t nondet_u64(void); uint32_t nondet_u32(void); uint8_t nondet_u8(void); int nondet_int(void);
#ifdef EVERY_SIZE
uint64_t rotr(uint64_t a, unsigned int b) { return (b & 63) ? ((a >> (b & 63)) | (a << (64 - (b & 63)))) : a; }
uint64_t mulh(uint64_t a, uint64_t b) { return __CPROVER_uninterpreted_mulh(a, b); }
int64_t smulh(int64_t a, int64_t b) { return (int64_t)__CPROVER_uninterpreted_smulh((uint64_t)a, (uint64_t)b); }
uint64_t randomx_reciprocal(uint32_t divisor) { __CPROVER_assert(divisor != 0 && (divisor & (divisor - 1)) != 0, "reciprocal is asked only for non-zero, non-power-of-two 32-bit divisors");
	return __CPROVER_uninterpreted_rcp((uint32_t)divisor); }
static Instruction* rxv_any_instruction(struct SuperscalarProgram* self, int pc) { __CPROVER_assert(pc >= 0 && (uint32_t)pc < self->size, "instruction index inside the program");
	g_instr.opcode = nondet_u8(); g_instr.dst = nondet_u8(); g_instr.src = nondet_u8(); g_instr.mod = nondet_u8(); g_instr.imm32 = nondet_u32(); __CPROVER_assume(RXV_SS_WF(&g_instr)); return &g_instr; }
size_t nondet_size(void);
void h_exec_all(void) { int_reg_t* r; SuperscalarProgram* prog; static rxv_u64vec rc;
	rc.size = nondet_size(); __CPROVER_assume(rc.size <= ((size_t)1 << 32)); rc.data = malloc(rc.size * sizeof(uint64_t)); __CPROVER_assume(rc.data != 0);
	g_recip = nondet_int() ? &rc : (rxv_u64vec*)0;
	executeSuperscalar(r, prog, g_recip); __CPROVER_assert(0, "canary"); }
#else
void h_exec_step(void) {
	static SuperscalarProgram prog; static uint64_t table[4]; static rxv_u64vec rc; uint64_t r[8], e[8];
	Instruction* in = &prog.programBuffer[0];
	in->opcode = nondet_u8(); in->dst = nondet_u8(); in->src = nondet_u8(); in->mod = nondet_u8(); in->imm32 = nondet_u32();
	prog.size = 1;
	for (int i = 0; i < 4; i++) table[i] = nondet_u64();
	rc.data = table; rc.size = 4; g_recip = nondet_int() ? &rc : (rxv_u64vec*)0;
	__CPROVER_assume(RXV_SS_WF(in));
	for (int i = 0; i < 8; i++) e[i] = r[i] = nondet_u64();
	uint64_t rcp = g_recip ? table[in->imm32 & 3] : __CPROVER_uninterpreted_rcp(in->imm32);
	spec_ss_step(e, in->opcode, in->dst, in->src, in->mod, in->imm32, rcp);
	executeSuperscalar(r, &prog, g_recip);
	for (int i = 0; i < 8; i++) __CPROVER_assert(r[i] == e[i], "register file after one instruction is the one Table 6.1.1 prescribes");
	__CPROVER_assert(0, "canary");
}
#endif
