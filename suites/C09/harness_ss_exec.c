#include "ss.c"
#include "spec_ss.h"
rxv_u64vec* g_recip; Instruction g_instr;
uint64_t nondet_u64(void); uint32_t nondet_u32(void); uint8_t nondet_u8(void); int nondet_int(void);
#ifdef EVERY_SIZE
void h_exec_all(void) { int_reg_t* r; SuperscalarProgram* prog; rxv_u64vec* rc; executeSuperscalar(r, prog, rc); __CPROVER_assert(0, "canary"); }
#else
void h_exec_step(void) {
	static SuperscalarProgram prog; static uint64_t table[4]; static rxv_u64vec rc; uint64_t r[8], e[8];
	Instruction* in = &prog.programBuffer[0];
	in->opcode = nondet_u8(); in->dst = nondet_u8(); in->src = nondet_u8(); in->mod = nondet_u8(); in->imm32 = nondet_u32();
	prog.size = 1;
	for (int i = 0; i < 4; i++) table[i] = nondet_u64();
	rc.data = table; rc.size = 4; g_recip = nondet_int() ? &rc : (rxv_u64vec*)0;
	__CPROVER_assume(RXV_SS_WF(in));
	for (int i = 0; i < 8; i++) e[i] = r[i] = nondet_u64();
	uint64_t rcp = g_recip ? table[in->imm32 & 3] : __CPROVER_uninterpreted_rcp(in->imm32);
	spec_ss_step(e, in->opcode, in->dst, in->src, in->mod, in->imm32, rcp);
	executeSuperscalar(r, &prog, g_recip);
	for (int i = 0; i < 8; i++) __CPROVER_assert(r[i] == e[i], "register file after one instruction is the one Table 6.1.1 prescribes");
	__CPROVER_assert(0, "canary");
}
#endif
