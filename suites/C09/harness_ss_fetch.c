#include "sf.c"
/* the six decode groups of Table 6.3.1 (re-stated; checked against the source text by the extraction on every run) */
static const int b0[] = { 4, 8, 4 }, b1[] = { 7, 3, 3, 3 }, b2[] = { 3, 7, 3, 3 }, b3[] = { 4, 9, 3 }, b4[] = { 4, 4, 4, 4 }, b5[] = { 3, 3, 10 };
const DecoderBuffer DecoderBuffer_decodeBuffer484 = { "4,8,4", 0, b0, 3 }, DecoderBuffer_decodeBuffer7333 = { "7,3,3,3", 1, b1, 4 }, DecoderBuffer_decodeBuffer3733 = { "3,7,3,3", 2, b2, 4 },
	DecoderBuffer_decodeBuffer493 = { "4,9,3", 3, b3, 3 }, DecoderBuffer_decodeBuffer4444 = { "4,4,4,4", 4, b4, 4 }, DecoderBuffer_decodeBuffer3310 = { "3,3,10", 5, b5, 3 };
const DecoderBuffer* DecoderBuffer_decodeBuffers[4];   /* filled in h_fetch (goto-cc drops the static initialiser of this array after the extern declaration) */
unsigned g_draws; uint8_t nondet_u8(void); int nondet_int(void); unsigned nondet_unsigned(void);
uint8_t rxv_gen_u8(Blake2Generator* gen) { g_draws++; return nondet_u8(); }
void h_fetch(void) { struct DecoderBuffer* self; Blake2Generator* gen; g_draws = nondet_unsigned();
	DecoderBuffer_decodeBuffers[0] = &DecoderBuffer_decodeBuffer484; DecoderBuffer_decodeBuffers[1] = &DecoderBuffer_decodeBuffer7333;
	DecoderBuffer_decodeBuffers[2] = &DecoderBuffer_decodeBuffer3733; DecoderBuffer_decodeBuffers[3] = &DecoderBuffer_decodeBuffer493;
	DecoderBuffer_fetchNext(self, (SuperscalarInstructionType)nondet_int(), nondet_int(), nondet_int(), gen); __CPROVER_assert(0, "canary"); }
