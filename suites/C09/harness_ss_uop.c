#include "su.c"
int g_c, g_p; int g_old[CYCLE_MAP_SIZE][3];
int nondet_int(void);
void h_uop(void) { int (*map)[3]; g_c = nondet_int(); g_p = nondet_int();
	for (int c = 0; c < CYCLE_MAP_SIZE; c++) for (int p = 0; p < 3; p++) g_old[c][p] = nondet_int();
	scheduleUop(nondet_int(), map, nondet_int()); __CPROVER_assert(0, "canary"); }
