/* SuperscalarInstruction::create (src/superscalar.cpp, extracted): the operand-independent fields of a freshly created
   SuperscalarHash instruction, for every instruction type and every generator stream (doc/specs.md Table 6.1.1 and 6.3.2):
   rotation counts of IROR_C are 1..63, reciprocal divisors of IMUL_RCP are neither zero nor a power of two, instructions without
   an immediate carry 0, only IADD_RS carries a mod byte, only the high multiplications may reuse their source as destination,
   and the operation group / "group parameter is the source" attributes that the operand rules (select*) consult.
   The two rejection loops (do ... while) are closed by loop contracts without a variant: that they terminate is a probabilistic
   fact about the generator stream, not decided here (partial correctness).  Stand-ins: generator draws, type query. */
#ifndef RXV_CONTRACTS_SS_CREATE_H
#define RXV_CONTRACTS_SS_CREATE_H
extern SuperscalarInstructionType g_type; extern unsigned g_draws;
int rxv_info_type(const SuperscalarInstructionInfo* info); uint8_t rxv_gen_u8(Blake2Generator* gen); uint32_t rxv_gen_u32(Blake2Generator* gen);
#define T(x) SuperscalarInstructionType_##x
#define RXV_IS_CONST_KIND(t) ((t) == T(IADD_C7) || (t) == T(IADD_C8) || (t) == T(IADD_C9) || (t) == T(IXOR_C7) || (t) == T(IXOR_C8) || (t) == T(IXOR_C9))
#define RXV_VALID_TYPE(t) ((int)(t) >= 0 && (int)(t) < 14)
static void SuperscalarInstruction_create(struct SuperscalarInstruction* self, const SuperscalarInstructionInfo* info, Blake2Generator* gen)
__CPROVER_requires(__CPROVER_is_fresh(self, sizeof(*self)) && RXV_VALID_TYPE(g_type))
__CPROVER_assigns(__CPROVER_object_whole(self), g_draws)
__CPROVER_ensures(self->info_ == info && self->src_ == -1 && self->dst_ == -1)            /* operands are chosen later (select*) */
__CPROVER_ensures(g_type == T(IROR_C) ? (self->imm32_ >= 1 && self->imm32_ <= 63)
	: g_type == T(IMUL_RCP) ? (self->imm32_ != 0 && (self->imm32_ & (self->imm32_ - 1)) != 0)
	: RXV_IS_CONST_KIND(g_type) ? 1 : self->imm32_ == 0)
__CPROVER_ensures(g_type == T(IADD_RS) || self->mod_ == 0)
__CPROVER_ensures(self->canReuse_ == (g_type == T(IMULH_R) || g_type == T(ISMULH_R)))
__CPROVER_ensures(self->groupParIsSource_ == (g_type == T(ISUB_R) || g_type == T(IXOR_R) || g_type == T(IADD_RS) || g_type == T(IMUL_R)))
/* operation groups: subtraction counts as addition, the three constant widths of IADD_C / IXOR_C are one group each */
__CPROVER_ensures(self->opGroup_ == (g_type == T(ISUB_R) ? T(IADD_RS) : (g_type == T(IADD_C8) || g_type == T(IADD_C9)) ? T(IADD_C7)
	: (g_type == T(IXOR_C8) || g_type == T(IXOR_C9)) ? T(IXOR_C7) : g_type))
__CPROVER_ensures((g_type == T(IROR_C) || RXV_IS_CONST_KIND(g_type) || g_type == T(IMUL_RCP)) ==> self->opGroupPar_ == -1);
#define RXV_CREATE_RETRY_LOOP __CPROVER_assigns(self->imm32_, g_draws) __CPROVER_loop_invariant(1)
#endif
