/* Operand selection of the SuperscalarHash generator (src/superscalar.cpp, extracted): SuperscalarInstruction::
   selectDestination / selectSource and selectRegister.  Postconditions restate the operand rules of doc/specs.md 6.3.5-6.3.6 /
   Table 6.1.1 (ready at the cycle, distinct from the source unless the instruction allows it, no chained multiplication,
   not the same operation group and parameter twice in a row, r5 never the destination of IADD_RS, r5 forced as source when it
   is one of only two candidates of IADD_RS).  The frame is the instruction object and the generator state only: no
   static-storage object is written, so two threads generating programs for their own caches cannot interfere (C14).
   Stand-ins (contracts, not bodies): the instruction-type query and the generator draw. */
#ifndef RXV_CONTRACTS_SS_SELECT_H
#define RXV_CONTRACTS_SS_SELECT_H
extern SuperscalarInstructionType g_type; extern unsigned g_draws; extern unsigned g_r;   /* g_r: ghost probe register 0..7 */
SuperscalarInstructionType rxv_info_type(const SuperscalarInstructionInfo* info)
__CPROVER_requires(1) __CPROVER_assigns() __CPROVER_ensures(__CPROVER_return_value == g_type);
uint32_t rxv_gen_u32(Blake2Generator* gen)
__CPROVER_requires(1) __CPROVER_assigns(g_draws) __CPROVER_ensures(g_draws == __CPROVER_old(g_draws) + 1);

#define RXV_READY(r) (registers[r].latency <= cycle)
#define RXV_DST_OK(r) (RXV_READY(r) && (self->canReuse_ || (int)(r) != self->src_) \
	&& (allowChainedMul || self->opGroup_ != SuperscalarInstructionType_IMUL_R || registers[r].lastOpGroup != SuperscalarInstructionType_IMUL_R) \
	&& (registers[r].lastOpGroup != self->opGroup_ || registers[r].lastOpPar != self->opGroupPar_) \
	&& (g_type != SuperscalarInstructionType_IADD_RS || (r) != 5))
#define RXV_NREADY (RXV_READY(0) + RXV_READY(1) + RXV_READY(2) + RXV_READY(3) + RXV_READY(4) + RXV_READY(5) + RXV_READY(6) + RXV_READY(7))

static bool SuperscalarInstruction_selectDestination(struct SuperscalarInstruction* self, int cycle, bool allowChainedMul, RegisterInfo* registers, Blake2Generator* gen)
__CPROVER_requires(__CPROVER_is_fresh(self, sizeof(*self)) && __CPROVER_is_fresh(registers, 8 * sizeof(RegisterInfo)) && g_r < 8)
__CPROVER_assigns(self->dst_, g_draws)
__CPROVER_ensures(__CPROVER_return_value ==> (self->dst_ >= 0 && self->dst_ < 8 && RXV_DST_OK(self->dst_)))
__CPROVER_ensures(!__CPROVER_return_value ==> (!RXV_DST_OK(g_r) && self->dst_ == __CPROVER_old(self->dst_)))
__CPROVER_ensures(g_draws == __CPROVER_old(g_draws) || g_draws == __CPROVER_old(g_draws) + 1);

static bool SuperscalarInstruction_selectSource(struct SuperscalarInstruction* self, int cycle, RegisterInfo* registers, Blake2Generator* gen)
__CPROVER_requires(__CPROVER_is_fresh(self, sizeof(*self)) && __CPROVER_is_fresh(registers, 8 * sizeof(RegisterInfo)) && g_r < 8)
__CPROVER_assigns(self->src_, self->opGroupPar_, g_draws)
__CPROVER_ensures(__CPROVER_return_value ==> (self->src_ >= 0 && self->src_ < 8 && RXV_READY(self->src_)))
__CPROVER_ensures((__CPROVER_return_value && self->groupParIsSource_) ==> self->opGroupPar_ == self->src_)
__CPROVER_ensures((RXV_NREADY == 2 && RXV_READY(5) && g_type == SuperscalarInstructionType_IADD_RS) ==> (__CPROVER_return_value && self->src_ == 5 && self->opGroupPar_ == 5 && g_draws == __CPROVER_old(g_draws)))
__CPROVER_ensures(!__CPROVER_return_value ==> (!RXV_READY(g_r) && self->src_ == __CPROVER_old(self->src_)))
__CPROVER_ensures(g_draws == __CPROVER_old(g_draws) || g_draws == __CPROVER_old(g_draws) + 1);
#endif
