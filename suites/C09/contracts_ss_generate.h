/* generateSuperscalar (src/superscalar.cpp, extracted): the control skeleton of the SuperscalarHash generator (doc/specs.md 6.3).
   Everything the loop calls - decoder-buffer choice, instruction creation, operand selection, port scheduling, macro-op
   attributes - is a stand-in with a contract that allows every behaviour of the real callee (ranges only), so the
   obligation holds for every generator stream, i.e. every key.  Decided here:
     * memory safety and frame: at most SuperscalarMaxSize (3 * 170 + 2) instructions are emitted, all inside
       prog->programBuffer; register indices stay in 0..7; nothing but *prog is written;
     * the termination rule of 6.3: once a macro-op has been scheduled at a cycle >= RANDOMX_SUPERSCALAR_LATENCY no further
       instruction is created (precondition of the creation stand-in);
     * termination: the decode loop runs at most 170 times, the slot loop has a lexicographic variant
       (free slots, remaining throw-aways).
   Not decided here: what the stand-ins compute (port map, decode buffers, operand rules: select* are separate obligations). */
#ifndef RXV_CONTRACTS_SS_GENERATE_H
#define RXV_CONTRACTS_SS_GENERATE_H
typedef struct SuperscalarInstruction SuperscalarInstruction;
extern SuperscalarInstruction rxv_null_instruction; extern const DecoderBuffer* rxv_default_decoder_buffer;
extern int g_db_size;            /* slots of the current decode buffer (3 or 4: the six configurations of Table 6.3.1) */
extern int g_cur_size;           /* macro-ops of the instruction in flight (0 for the null instruction) */
extern int g_last_commit;        /* cycle of the latest committed macro-op, -1 before the first */
extern unsigned g_created;       /* instructions created so far (some are thrown away) */
extern unsigned g_emitted;       /* instructions written into the program so far */

#ifdef RXV_STANDINS_AS_FUNCTIONS
/* declarations only: the harness defines these stand-ins as functions with the same ranges / requirements (see harness_ss_generate.c) */
const DecoderBuffer* rxv_db_fetchNext(const DecoderBuffer* db, int type, int decodeCycle, int mulCount, Blake2Generator* gen);
int rxv_db_size(const DecoderBuffer* db); int rxv_db_count(const DecoderBuffer* db, int slot); int rxv_db_index(const DecoderBuffer* db);
int rxv_cur_type(SuperscalarInstruction* c); int rxv_cur_size(SuperscalarInstruction* c);
void rxv_cur_create(SuperscalarInstruction* c, Blake2Generator* gen, int slotSize, int fetchType, bool isLast, bool isFirst);
const MacroOp* rxv_cur_op(SuperscalarInstruction* c, int index); int rxv_cur_srcop(SuperscalarInstruction* c); int rxv_cur_dstop(SuperscalarInstruction* c); int rxv_cur_resultop(SuperscalarInstruction* c);
bool rxv_cur_select_src(SuperscalarInstruction* c, int cycle, RegisterInfo* registers, Blake2Generator* gen);
bool rxv_cur_select_dst(SuperscalarInstruction* c, int cycle, bool allowChainedMul, RegisterInfo* registers, Blake2Generator* gen);
int rxv_cur_dst(SuperscalarInstruction* c); int rxv_cur_group(SuperscalarInstruction* c); int rxv_cur_grouppar(SuperscalarInstruction* c);
void rxv_cur_emit(SuperscalarInstruction* c, Instruction* instr); int rxv_mop_latency(const MacroOp* m); int rxv_mop_size(const MacroOp* m); int isMultiplication(int type);
int rxv_schedule_probe(const MacroOp* m, int (*portBusy)[3], int cycle, int depCycle); int rxv_schedule_commit(const MacroOp* m, int (*portBusy)[3], int cycle, int depCycle);
Instruction* rxv_emitted(SuperscalarProgram* prog, int i);
#else
const DecoderBuffer* rxv_db_fetchNext(const DecoderBuffer* db, int type, int decodeCycle, int mulCount, Blake2Generator* gen)
__CPROVER_requires(decodeCycle >= 0 && decodeCycle < 170) __CPROVER_assigns(g_db_size) __CPROVER_ensures(g_db_size >= 3 && g_db_size <= 4);
int rxv_db_size(const DecoderBuffer* db) __CPROVER_requires(1) __CPROVER_assigns() __CPROVER_ensures(__CPROVER_return_value == g_db_size);
int rxv_db_count(const DecoderBuffer* db, int slot) __CPROVER_requires(slot >= 0 && slot < g_db_size) __CPROVER_assigns() __CPROVER_ensures(__CPROVER_return_value >= 3 && __CPROVER_return_value <= 10);
int rxv_db_index(const DecoderBuffer* db) __CPROVER_requires(1) __CPROVER_assigns() __CPROVER_ensures(1);
int rxv_cur_type(SuperscalarInstruction* c) __CPROVER_requires(1) __CPROVER_assigns() __CPROVER_ensures(1);
int rxv_cur_size(SuperscalarInstruction* c) __CPROVER_requires(1) __CPROVER_assigns() __CPROVER_ensures(__CPROVER_return_value == g_cur_size);
/* spec 6.3: "generation stops when an instruction is scheduled at a cycle >= RANDOMX_SUPERSCALAR_LATENCY", and the program never
   exceeds its buffer: both are requirements on WHEN a new instruction may be created */
void rxv_cur_create(SuperscalarInstruction* c, Blake2Generator* gen, int slotSize, int fetchType, bool isLast, bool isFirst)
__CPROVER_requires(g_last_commit < 170)
__CPROVER_requires(g_created < (unsigned)SuperscalarMaxSize)
__CPROVER_assigns(g_cur_size, g_created) __CPROVER_ensures(g_cur_size >= 1 && g_cur_size <= 4 && g_created == __CPROVER_old(g_created) + 1);
const MacroOp* rxv_cur_op(SuperscalarInstruction* c, int index) __CPROVER_requires(index >= 0 && index < g_cur_size) __CPROVER_assigns() __CPROVER_ensures(1);
int rxv_cur_srcop(SuperscalarInstruction* c) __CPROVER_requires(1) __CPROVER_assigns() __CPROVER_ensures(1);
int rxv_cur_dstop(SuperscalarInstruction* c) __CPROVER_requires(1) __CPROVER_assigns() __CPROVER_ensures(1);
int rxv_cur_resultop(SuperscalarInstruction* c) __CPROVER_requires(1) __CPROVER_assigns() __CPROVER_ensures(1);
bool rxv_cur_select_src(SuperscalarInstruction* c, int cycle, RegisterInfo* registers, Blake2Generator* gen) __CPROVER_requires(1) __CPROVER_assigns() __CPROVER_ensures(1);
bool rxv_cur_select_dst(SuperscalarInstruction* c, int cycle, bool allowChainedMul, RegisterInfo* registers, Blake2Generator* gen) __CPROVER_requires(1) __CPROVER_assigns() __CPROVER_ensures(1);
int rxv_cur_dst(SuperscalarInstruction* c) __CPROVER_requires(1) __CPROVER_assigns() __CPROVER_ensures(__CPROVER_return_value >= 0 && __CPROVER_return_value < 8);
int rxv_cur_group(SuperscalarInstruction* c) __CPROVER_requires(1) __CPROVER_assigns() __CPROVER_ensures(1);
int rxv_cur_grouppar(SuperscalarInstruction* c) __CPROVER_requires(1) __CPROVER_assigns() __CPROVER_ensures(1);
void rxv_cur_emit(SuperscalarInstruction* c, Instruction* instr)
__CPROVER_requires(__CPROVER_w_ok(instr, sizeof(*instr))) __CPROVER_assigns(*instr) __CPROVER_ensures(instr->dst < 8 && instr->src < 8);
int rxv_mop_latency(const MacroOp* m) __CPROVER_requires(1) __CPROVER_assigns() __CPROVER_ensures(__CPROVER_return_value >= 0 && __CPROVER_return_value <= 4);
int rxv_mop_size(const MacroOp* m) __CPROVER_requires(1) __CPROVER_assigns() __CPROVER_ensures(__CPROVER_return_value >= 0 && __CPROVER_return_value <= 16);
int isMultiplication(int type) __CPROVER_requires(1) __CPROVER_assigns() __CPROVER_ensures(__CPROVER_return_value == 0 || __CPROVER_return_value == 1);
/* port scheduling: -1 (no port within the map) or a cycle not before the requested one and inside the map */
int rxv_schedule_probe(const MacroOp* m, int (*portBusy)[3], int cycle, int depCycle)
__CPROVER_requires(cycle >= 0) __CPROVER_assigns()
__CPROVER_ensures(__CPROVER_return_value == -1 || (__CPROVER_return_value >= cycle && __CPROVER_return_value < CYCLE_MAP_SIZE));
int rxv_schedule_commit(const MacroOp* m, int (*portBusy)[3], int cycle, int depCycle)
__CPROVER_requires(cycle >= 0) __CPROVER_assigns(g_last_commit)
__CPROVER_ensures(__CPROVER_return_value == -1 || (__CPROVER_return_value >= cycle && __CPROVER_return_value < CYCLE_MAP_SIZE))
__CPROVER_ensures(g_last_commit == (__CPROVER_return_value >= 0 ? __CPROVER_return_value : __CPROVER_old(g_last_commit)));
/* an instruction emitted earlier (ASIC-latency pass): well-formed as rxv_cur_emit left it */
Instruction* rxv_emitted(SuperscalarProgram* prog, int i)
__CPROVER_requires(i >= 0 && i < SuperscalarMaxSize) __CPROVER_assigns()
__CPROVER_ensures(__CPROVER_return_value == &prog->programBuffer[i] && __CPROVER_return_value->dst < 8 && __CPROVER_return_value->src < 8);

#endif
void generateSuperscalar(SuperscalarProgram* prog, Blake2Generator* gen)
__CPROVER_requires(__CPROVER_is_fresh(prog, sizeof(*prog)) && g_cur_size == 0 && g_last_commit == -1 && g_created == 0 && g_emitted == 0)
__CPROVER_assigns(__CPROVER_object_whole(prog), g_db_size, g_cur_size, g_last_commit, g_created, g_emitted)
__CPROVER_ensures(prog->size <= (uint32_t)SuperscalarMaxSize && prog->addrReg >= 0 && prog->addrReg < 8);

/* arithmetic overflow of the statistics counters (cycle, codeSize, macroOpCount, ...) is not part of this obligation:
   the signed-overflow check is off for it */
#define RXV_CUR_SIZE (currentInstruction.info_ == rxv_null_instruction.info_ ? 0 : g_cur_size)
#define RXV_GEN_COMMON (programSize >= 0 && programSize <= SuperscalarMaxSize && g_emitted == (unsigned)programSize \
	&& (macroOpIndex >= RXV_CUR_SIZE || programSize < SuperscalarMaxSize)   /* an instruction in flight still has room in the buffer */ \
	&& macroOpIndex >= 0 && g_cur_size >= 0 && g_cur_size <= 4 \
	&& (g_last_commit < 170 || portsSaturated) && throwAwayCount >= 0 && throwAwayCount <= MAX_THROWAWAY_COUNT)
#define RXV_GEN_OUTER_INVARIANT \
	__CPROVER_assigns(decodeCycle, decodeBuffer, currentInstruction, macroOpIndex, codeSize, macroOpCount, cycle, depCycle, retireCycle, portsSaturated, programSize, mulCount, throwAwayCount, \
		__CPROVER_object_whole(registers), __CPROVER_object_whole(prog), g_db_size, g_cur_size, g_last_commit, g_created, g_emitted) \
	__CPROVER_loop_invariant(decodeCycle >= 0 && decodeCycle <= 170 && RXV_GEN_COMMON) \
	__CPROVER_decreases(170 - decodeCycle)
#define RXV_GEN_INNER_INVARIANT \
	__CPROVER_assigns(bufferIndex, currentInstruction, macroOpIndex, codeSize, macroOpCount, cycle, depCycle, retireCycle, portsSaturated, programSize, mulCount, throwAwayCount, \
		__CPROVER_object_whole(registers), __CPROVER_object_whole(prog), g_cur_size, g_last_commit, g_created, g_emitted) \
	__CPROVER_loop_invariant(bufferIndex >= 0 && bufferIndex <= g_db_size && g_db_size >= 3 && g_db_size <= 4 && RXV_GEN_COMMON) \
	__CPROVER_decreases(g_db_size - bufferIndex, MAX_THROWAWAY_COUNT - throwAwayCount)
#define RXV_GEN_ASIC_INVARIANT \
	__CPROVER_assigns(i, __CPROVER_object_upto(prog->asicLatencies, sizeof(prog->asicLatencies))) \
	__CPROVER_loop_invariant(i >= 0 && i <= programSize && prog->asicLatencies[0] <= i && prog->asicLatencies[1] <= i && prog->asicLatencies[2] <= i && prog->asicLatencies[3] <= i \
		&& prog->asicLatencies[4] <= i && prog->asicLatencies[5] <= i && prog->asicLatencies[6] <= i && prog->asicLatencies[7] <= i \
		&& prog->asicLatencies[0] >= 0 && prog->asicLatencies[1] >= 0 && prog->asicLatencies[2] >= 0 && prog->asicLatencies[3] >= 0 \
		&& prog->asicLatencies[4] >= 0 && prog->asicLatencies[5] >= 0 && prog->asicLatencies[6] >= 0 && prog->asicLatencies[7] >= 0) \
	__CPROVER_decreases(programSize - i)
#endif
