/* DecoderBuffer::fetchNext (src/superscalar.cpp, extracted): choice of the next decode group, doc/specs.md 6.3.1:
     * current instruction IMULH_R / ISMULH_R          -> group 5 (3-3-10)
     * multiplications so far <= current decoding cycle -> group 4 (4-4-4-4)
     * current instruction IMUL_RCP                     -> group 0 (4-8-4) or 3 (4-9-3)
     * otherwise                                        -> one of groups 0-3
   in this order of precedence, with at most one generator byte consumed, and none in the first two cases.
   The six group objects are built by C++ constructors that the extraction drops; the harness re-states them and the
   extraction checks on every run (source_must_match) that the source still initialises each object with the index and the
   slot sizes of the table. */
#ifndef RXV_CONTRACTS_SS_FETCH_H
#define RXV_CONTRACTS_SS_FETCH_H
extern unsigned g_draws; uint8_t rxv_gen_u8(Blake2Generator* gen);
#define RXV_GROUP(p) ((p) == &DecoderBuffer_decodeBuffer484 ? 0 : (p) == &DecoderBuffer_decodeBuffer7333 ? 1 : (p) == &DecoderBuffer_decodeBuffer3733 ? 2 : \
	(p) == &DecoderBuffer_decodeBuffer493 ? 3 : (p) == &DecoderBuffer_decodeBuffer4444 ? 4 : (p) == &DecoderBuffer_decodeBuffer3310 ? 5 : -1)
static const DecoderBuffer* DecoderBuffer_fetchNext(struct DecoderBuffer* self, SuperscalarInstructionType instrType, int cycle, int mulCount, Blake2Generator* gen)
__CPROVER_requires(cycle >= 0 && cycle < 170 && mulCount >= 0)
__CPROVER_assigns(g_draws)
__CPROVER_ensures((instrType == SuperscalarInstructionType_IMULH_R || instrType == SuperscalarInstructionType_ISMULH_R)
	? (RXV_GROUP(__CPROVER_return_value) == 5 && g_draws == __CPROVER_old(g_draws))
	: (mulCount <= cycle) ? (RXV_GROUP(__CPROVER_return_value) == 4 && g_draws == __CPROVER_old(g_draws))
	: (instrType == SuperscalarInstructionType_IMUL_RCP) ? ((RXV_GROUP(__CPROVER_return_value) == 0 || RXV_GROUP(__CPROVER_return_value) == 3) && g_draws == __CPROVER_old(g_draws) + 1)
	: (RXV_GROUP(__CPROVER_return_value) >= 0 && RXV_GROUP(__CPROVER_return_value) <= 3 && g_draws == __CPROVER_old(g_draws) + 1))
/* every group is reachable where the rules leave a choice (cover-style clauses are not expressible; see harness assertions) */
;
#endif
