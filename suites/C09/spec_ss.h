/* doc/specs.md Table 6.1.1, written independently of the code: the effect of one SuperscalarHash instruction on r0-r7.
   mulh / smulh / reciprocal are the uninterpreted functions of contracts_ss_exec.h. */
#ifndef RXV_SPEC_SS_H
#define RXV_SPEC_SS_H
static inline uint64_t spec_ss_sext32(uint32_t x) { return (uint64_t)(int64_t)(int32_t)x; }
static inline uint64_t spec_ss_rotr(uint64_t x, unsigned c) { c &= 63; return c ? (x >> c) | (x << (64 - c)) : x; }
static inline void spec_ss_step(uint64_t r[8], unsigned opcode, unsigned dst, unsigned src, unsigned mod, uint32_t imm32, uint64_t rcp_value) {
	switch (opcode) {
	case 0: r[dst] = r[dst] - r[src]; break;                                  /* ISUB_R */
	case 1: r[dst] = r[dst] ^ r[src]; break;                                  /* IXOR_R */
	case 2: r[dst] = r[dst] + (r[src] << ((mod >> 2) & 3)); break;            /* IADD_RS: shift = mod.shift = bits 2-3 of mod */
	case 3: r[dst] = RXV_MUL64(r[dst], r[src]); break;                                  /* IMUL_R */
	case 4: r[dst] = spec_ss_rotr(r[dst], imm32); break;                      /* IROR_C */
	case 5: case 7: case 9: r[dst] = r[dst] + spec_ss_sext32(imm32); break;   /* IADD_C7/8/9 */
	case 6: case 8: case 10: r[dst] = r[dst] ^ spec_ss_sext32(imm32); break;  /* IXOR_C7/8/9 */
	case 11: r[dst] = __CPROVER_uninterpreted_mulh(r[dst], r[src]); break;    /* IMULH_R */
	case 12: r[dst] = __CPROVER_uninterpreted_smulh(r[dst], r[src]); break;   /* ISMULH_R */
	case 13: r[dst] = RXV_MUL64(r[dst], rcp_value); break;                              /* IMUL_RCP: reciprocal of imm32 */
	}
}
#endif
