#include "sg.c"
SuperscalarInstruction rxv_null_instruction; const DecoderBuffer* rxv_default_decoder_buffer;
int g_db_size, g_cur_size, g_last_commit; unsigned g_created;
void h_generate(void) { SuperscalarProgram* prog; Blake2Generator* gen; g_last_commit = -1; generateSuperscalar(prog, gen); __CPROVER_assert(0, "canary"); }
