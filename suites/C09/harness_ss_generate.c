/* stand-ins of contracts_ss_generate.h rendered as harness functions (nondeterministic results within the stated ranges,
   requirements as assertions): the same behaviours as the contract form, without the per-call instrumentation of
   --replace-call-with-contract, which made cbmc's symbolic execution of this function take > 40 min */
#define RXV_STANDINS_AS_FUNCTIONS 1
#include "sg.c"
SuperscalarInstruction rxv_null_instruction; const DecoderBuffer* rxv_default_decoder_buffer;
int g_db_size, g_cur_size, g_last_commit; unsigned g_created, g_emitted;
static char null_info_obj, some_info_obj;   /* identities of "the null instruction's info" and "any other info" */
int nondet_int(void); _Bool nondet_bool(void); const DecoderBuffer* nondet_db(void); const MacroOp* nondet_mop(void);
static int in_range(int lo, int hi) { int x = nondet_int(); __CPROVER_assume(x >= lo && x <= hi); return x; }
const DecoderBuffer* rxv_db_fetchNext(const DecoderBuffer* db, int type, int decodeCycle, int mulCount, Blake2Generator* gen) {
	__CPROVER_assert(decodeCycle >= 0 && decodeCycle < 170, "decode cycle inside the generation window"); g_db_size = in_range(3, 4); return nondet_db(); }
int rxv_db_size(const DecoderBuffer* db) { return g_db_size; }
int rxv_db_count(const DecoderBuffer* db, int slot) { __CPROVER_assert(slot >= 0 && slot < g_db_size, "slot index inside the decode buffer"); return in_range(3, 10); }
int rxv_db_index(const DecoderBuffer* db) { return nondet_int(); }
int rxv_cur_type(SuperscalarInstruction* c) { return nondet_int(); }
/* the null instruction (SuperscalarInstruction::Null) has no macro-ops */
int rxv_cur_size(SuperscalarInstruction* c) { return c->info_ == (const SuperscalarInstructionInfo*)&null_info_obj ? 0 : g_cur_size; }
void rxv_cur_create(SuperscalarInstruction* c, Blake2Generator* gen, int slotSize, int fetchType, bool isLast, bool isFirst) {
	__CPROVER_assert(g_last_commit < 170, "spec 6.3: no instruction is created after a macro-op was scheduled at a cycle >= RANDOMX_SUPERSCALAR_LATENCY");
	__CPROVER_assert(g_emitted < (unsigned)SuperscalarMaxSize, "no instruction is created once the program buffer is full");
	c->info_ = (const SuperscalarInstructionInfo*)&some_info_obj; g_cur_size = in_range(1, 4); g_created++; }
const MacroOp* rxv_cur_op(SuperscalarInstruction* c, int index) { __CPROVER_assert(index >= 0 && index < g_cur_size, "macro-op index inside the instruction"); return nondet_mop(); }
int rxv_cur_srcop(SuperscalarInstruction* c) { return nondet_int(); }
int rxv_cur_dstop(SuperscalarInstruction* c) { return nondet_int(); }
int rxv_cur_resultop(SuperscalarInstruction* c) { return nondet_int(); }
bool rxv_cur_select_src(SuperscalarInstruction* c, int cycle, RegisterInfo* registers, Blake2Generator* gen) { return nondet_bool(); }
bool rxv_cur_select_dst(SuperscalarInstruction* c, int cycle, bool allowChainedMul, RegisterInfo* registers, Blake2Generator* gen) { return nondet_bool(); }
int rxv_cur_dst(SuperscalarInstruction* c) { return in_range(0, 7); }
int rxv_cur_group(SuperscalarInstruction* c) { return nondet_int(); }
int rxv_cur_grouppar(SuperscalarInstruction* c) { return nondet_int(); }
void rxv_cur_emit(SuperscalarInstruction* c, Instruction* instr) { g_emitted++; instr->opcode = (uint8_t)nondet_int(); instr->dst = (uint8_t)in_range(0, 7); instr->src = (uint8_t)in_range(0, 7); instr->mod = (uint8_t)nondet_int(); instr->imm32 = (uint32_t)nondet_int(); }
int rxv_mop_latency(const MacroOp* m) { return in_range(0, 4); }
int rxv_mop_size(const MacroOp* m) { return in_range(0, 16); }
int isMultiplication(int type) { return in_range(0, 1); }
static int sched(int cycle) { int r = nondet_int(); __CPROVER_assume(r == -1 || (r >= cycle && r < CYCLE_MAP_SIZE)); return r; }
int rxv_schedule_probe(const MacroOp* m, int (*portBusy)[3], int cycle, int depCycle) { return sched(cycle); }
int rxv_schedule_commit(const MacroOp* m, int (*portBusy)[3], int cycle, int depCycle) { int r = sched(cycle); if (r >= 0) g_last_commit = r; return r; }
Instruction* rxv_emitted(SuperscalarProgram* prog, int i) { __CPROVER_assert(i >= 0 && i < SuperscalarMaxSize, "emitted instruction index inside the program buffer");
	Instruction* p = &prog->programBuffer[i]; __CPROVER_assume(p->dst < 8 && p->src < 8); return p; }
void h_generate(void) { SuperscalarProgram* prog; Blake2Generator* gen; g_last_commit = -1; rxv_null_instruction.info_ = (const SuperscalarInstructionInfo*)&null_info_obj; generateSuperscalar(prog, gen); __CPROVER_assert(0, "canary"); }
