/* scheduleUop<commit> (src/superscalar.cpp, extracted; the template parameter is the macro RXV_COMMIT): port assignment of one
   micro-op, doc/specs.md 6.3.3: "issued to execution ports as soon as an available port is free ... checking port availability in
   order P5 -> P0 -> P1".  For every port map, micro-op port mask and start cycle:
     * the result is -1 or a cycle in [start, CYCLE_MAP_SIZE); the map is only indexed inside its bounds;
     * no cycle before the result has a free compatible port (ghost probe cycle g_c: arbitrary);
     * at the result cycle the port taken is the first free compatible one in the order P5, P0, P1, and with commit only that
       one entry of the map changes (to the micro-op), without commit nothing changes;
     * -1 only if no cycle from start to the end of the map has a free compatible port (probe). */
#ifndef RXV_CONTRACTS_SS_UOP_H
#define RXV_CONTRACTS_SS_UOP_H
enum { ExecutionPort_Null = 0, ExecutionPort_P0 = 1, ExecutionPort_P1 = 2, ExecutionPort_P5 = 4 };   /* namespace ExecutionPort (constexpr ints) */
extern int g_c, g_p;                        /* ghost probes: a cycle and a port column */
extern int g_old[CYCLE_MAP_SIZE][3];        /* the map at entry (harness copy) */
#define RXV_COL_MASK(p) ((p) == 2 ? ExecutionPort_P5 : (p) == 0 ? ExecutionPort_P0 : ExecutionPort_P1)
#define RXV_FREE(c, p) ((uop & RXV_COL_MASK(p)) != 0 && g_old[c][p] == 0)
#define RXV_ANY_FREE(c) (RXV_FREE(c, 2) || RXV_FREE(c, 0) || RXV_FREE(c, 1))
#define RXV_FIRST_FREE(c) (RXV_FREE(c, 2) ? 2 : RXV_FREE(c, 0) ? 0 : 1)
static int scheduleUop(int uop, int portBusy[CYCLE_MAP_SIZE][3], int cycle)
__CPROVER_requires(__CPROVER_is_fresh(portBusy, sizeof(int) * CYCLE_MAP_SIZE * 3) && cycle >= 0 && uop >= 0 && uop <= 7)
__CPROVER_requires(g_c >= 0 && g_c < CYCLE_MAP_SIZE && g_p >= 0 && g_p < 3 && portBusy[g_c][g_p] == g_old[g_c][g_p]
	&& portBusy[g_c][0] == g_old[g_c][0] && portBusy[g_c][1] == g_old[g_c][1] && portBusy[g_c][2] == g_old[g_c][2])
__CPROVER_assigns(__CPROVER_object_whole(portBusy))
__CPROVER_ensures(__CPROVER_return_value == -1 || (__CPROVER_return_value >= cycle && __CPROVER_return_value < CYCLE_MAP_SIZE))
/* probe cycle g_c: before the result (or anywhere from the start, when the result is -1) nothing compatible was free */
__CPROVER_ensures((g_c >= cycle && (__CPROVER_return_value == -1 || g_c < __CPROVER_return_value)) ==> !RXV_ANY_FREE(g_c))
/* probe cycle g_c == result: something was free there, and (commit) exactly the first free compatible port now holds the micro-op */
__CPROVER_ensures(g_c == __CPROVER_return_value ==> (RXV_ANY_FREE(g_c) &&
	portBusy[g_c][g_p] == ((RXV_COMMIT && g_p == RXV_FIRST_FREE(g_c)) ? uop : g_old[g_c][g_p])))
/* every other entry of the map is unchanged */
__CPROVER_ensures(g_c != __CPROVER_return_value ==> portBusy[g_c][g_p] == g_old[g_c][g_p]);
#define RXV_UOP_LOOP_INVARIANT __CPROVER_assigns(cycle) \
	__CPROVER_loop_invariant(cycle >= __CPROVER_loop_entry(cycle) && (cycle <= CYCLE_MAP_SIZE || cycle == __CPROVER_loop_entry(cycle))) \
	__CPROVER_loop_invariant(portBusy[g_c][0] == g_old[g_c][0] && portBusy[g_c][1] == g_old[g_c][1] && portBusy[g_c][2] == g_old[g_c][2]) \
	__CPROVER_loop_invariant((g_c >= __CPROVER_loop_entry(cycle) && g_c < cycle) ==> !RXV_ANY_FREE(g_c)) \
	__CPROVER_decreases(cycle < CYCLE_MAP_SIZE ? CYCLE_MAP_SIZE - cycle : 0)
#endif
