/* scheduleMop<commit> (src/superscalar.cpp, extracted; template parameter = macro RXV_COMMIT): the cycle at which all micro-ops of a
   macro-op can execute (doc/specs.md 6.3.3, "scheduleCycle").  Stand-ins (harness functions restating the contract of scheduleUop
   that is enforced in schedule_uop_*): probe / commit of one micro-op; macro-op attributes as ghosts.
   Without commit (the scheduling query): for every port map, macro-op and start cycle the map is unchanged and the result is
     * the (dependency-adjusted) start cycle for an eliminated macro-op (register move),
     * the first cycle with a free compatible port for a single-micro-op macro-op,
     * the first cycle at which BOTH micro-ops have a free compatible port for a two-micro-op macro-op,
     * -1 only if there is no such cycle inside the map (ghost probe cycle g_c: arbitrary).
   With commit: memory safety and the same result range. */
#ifndef RXV_CONTRACTS_SS_MOP_H
#define RXV_CONTRACTS_SS_MOP_H
enum { ExecutionPort_Null = 0, ExecutionPort_P0 = 1, ExecutionPort_P1 = 2, ExecutionPort_P5 = 4 };
extern int g_c; extern int g_dep, g_elim, g_simple, g_u1, g_u2;
#define RXV_COL_MASK(p) ((p) == 2 ? ExecutionPort_P5 : (p) == 0 ? ExecutionPort_P0 : ExecutionPort_P1)
#define RXV_FREE_IN(map, u, c, p) (((u) & RXV_COL_MASK(p)) != 0 && (map)[c][p] == 0)
#define RXV_ANY_FREE_IN(map, u, c) (RXV_FREE_IN(map, u, c, 2) || RXV_FREE_IN(map, u, c, 0) || RXV_FREE_IN(map, u, c, 1))
int rxv_uop_probe(int uop, int portBusy[CYCLE_MAP_SIZE][3], int cycle); int rxv_uop_commit(int uop, int portBusy[CYCLE_MAP_SIZE][3], int cycle); int rxv_uop_by_mode(int uop, int portBusy[CYCLE_MAP_SIZE][3], int cycle);
int rxv_mop_dependent(const MacroOp* m); int rxv_mop_eliminated(const MacroOp* m); int rxv_mop_simple(const MacroOp* m); int rxv_mop_uop1(const MacroOp* m); int rxv_mop_uop2(const MacroOp* m);
#define RXV_START (g_dep ? (cycle > depCycle ? cycle : depCycle) : cycle)
#define RXV_BOTH_FREE(c) (RXV_ANY_FREE_IN(portBusy, g_u1, c) && (g_simple || RXV_ANY_FREE_IN(portBusy, g_u2, c)))
static int scheduleMop(const MacroOp* mop, int portBusy[CYCLE_MAP_SIZE][3], int cycle, int depCycle)
__CPROVER_requires(__CPROVER_is_fresh(portBusy, sizeof(int) * CYCLE_MAP_SIZE * 3) && cycle >= 0 && depCycle >= 0 && g_c >= 0 && g_c < CYCLE_MAP_SIZE)
__CPROVER_requires(g_u1 >= 0 && g_u1 <= 7 && g_u2 >= 0 && g_u2 <= 7)
#if RXV_COMMIT
__CPROVER_assigns(__CPROVER_object_whole(portBusy))
__CPROVER_ensures(g_elim ? __CPROVER_return_value == RXV_START : (__CPROVER_return_value == -1 || (__CPROVER_return_value >= RXV_START && __CPROVER_return_value < CYCLE_MAP_SIZE)));
#else
__CPROVER_assigns()                                  /* a query does not change the port map */
__CPROVER_ensures(g_elim ? __CPROVER_return_value == RXV_START
	: (__CPROVER_return_value == -1 || (__CPROVER_return_value >= RXV_START && __CPROVER_return_value < CYCLE_MAP_SIZE && RXV_BOTH_FREE(__CPROVER_return_value))))
__CPROVER_ensures((!g_elim && g_c >= RXV_START && (__CPROVER_return_value == -1 || g_c < __CPROVER_return_value)) ==> !RXV_BOTH_FREE(g_c));
#endif
#define RXV_MOP_LOOP_INVARIANT __CPROVER_assigns(cycle) \
	__CPROVER_loop_invariant(cycle >= __CPROVER_loop_entry(cycle) && (cycle <= CYCLE_MAP_SIZE || cycle == __CPROVER_loop_entry(cycle))) \
	__CPROVER_loop_invariant((g_c >= __CPROVER_loop_entry(cycle) && g_c < cycle) ==> !RXV_BOTH_FREE(g_c)) \
	__CPROVER_decreases(cycle < CYCLE_MAP_SIZE ? CYCLE_MAP_SIZE - cycle : 0)
#endif
