/* Native replay for C13: hash "replay input" with key "replay key" on a light interpreted VM with the counterexample's
   entry MXCSR; exit 1 if the digest differs from the digest under the default control word, if MXCSR is not restored,
   or if the hash traps (a caller's unmasked exception leaking into the programs). */
#include "randomx.h"
#include <xmmintrin.h>
#include <csignal>
#include <cstdio>
#include <cstdlib>
#include <cstring>
#include <unistd.h>
static void on_fpe(int) { const char m[] = "SIGFPE inside randomx_calculate_hash: the caller's exception masks leaked into the hash -> VIOLATED\n"; write(1, m, sizeof m - 1); _exit(1); }
int main(int argc, char** argv) {
	unsigned entry = 0x1F80;
	for (int i = 1; i < argc; i++) if (!strncmp(argv[i], "rxv_mxcsr=", 10)) entry = (unsigned)strtoull(argv[i] + 10, 0, 10);
	entry &= 0xFFFF;                       /* reserved bits of MXCSR must be zero */
	randomx_flags flags = RANDOMX_FLAG_DEFAULT;
	randomx_cache* cache = randomx_alloc_cache(flags);
	randomx_init_cache(cache, "replay key", 10);
	randomx_vm* vm = randomx_create_vm(flags, cache, NULL);
	unsigned char ref[32], got[32];
	_mm_setcsr(0x1F80);
	randomx_calculate_hash(vm, "replay input", 12, ref);
	signal(SIGFPE, on_fpe);
	_mm_setcsr(entry);
	randomx_calculate_hash(vm, "replay input", 12, got);
	unsigned after = _mm_getcsr();
	_mm_setcsr(0x1F80);
	int bad = 0;
	/* status flags (bits 0-5) may legitimately be set by the caller's own later code; the property speaks of the whole word */
	if (after != entry) { printf("MXCSR after the call = 0x%04x, entry value 0x%04x\n", after, entry); bad = 1; }
	if (memcmp(ref, got, 32)) { printf("digest depends on the entry MXCSR 0x%04x\n", entry); bad = 1; }
	printf("entry MXCSR 0x%04x: %s\n", entry, bad ? "VIOLATED" : "holds");
	return bad;
}
