/* the real randomx_vm::resetRoundingMode (virtual_machine.cpp) and the SSE control-word helpers of intrin_portable.h,
   extracted; ghost MXCSR as in harness_driver.c.  These are the contracts the driver proof and the instruction-level
   proofs (rx_set_rounding_mode) assume. */
#include "vm.c"
unsigned rxv_mxcsr;
unsigned __builtin_ia32_stmxcsr(void) { return rxv_mxcsr; }
void __builtin_ia32_ldmxcsr(unsigned x) { rxv_mxcsr = x; }
unsigned nondet_unsigned(void);
void h_reset(void) {
	static struct randomx_vm vm;
	rxv_mxcsr = nondet_unsigned();
	randomx_vm_resetRoundingMode(&vm);
	__CPROVER_assert(rxv_mxcsr == 0x9FC0u, "reset writes the full default control word whatever the entry state");
	unsigned mode = nondet_unsigned();
	__CPROVER_assume(mode < 4);
	rxv_mxcsr = nondet_unsigned();
	rx_set_rounding_mode(mode);
	__CPROVER_assert(rxv_mxcsr == (0x9FC0u | (mode << 13)), "CFROUND writes a full fixed control word with the requested rounding bits");
	__CPROVER_assert(rx_get_rounding_mode() == mode, "rounding mode read back");
	__CPROVER_assert(0, "canary");
}
