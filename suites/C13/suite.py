import os, sys
sys.path.insert(0, os.path.join(os.path.dirname(os.path.abspath(__file__)), "..", "common"))
import cxx_specs as XS

PROPERTY = "C13"
LEVEL = "proof"
EXPLANATION = ('Proof that the rounding-mode reset loads the complete specified MXCSR value whatever the entry state, that CFROUND maps the two selected bits to the rounding mode as specified, and that the hash driver resets before and restores after; replayed natively with unmasked FP exceptions.')
TRUSTED = ["stmxcsr / ldmxcsr read and write exactly the ghost control word; FTZ/DAZ/rounding bits act on arithmetic as documented",
           "the JIT prologue/epilogue and the AES / Blake2b code do not touch MXCSR (assembly and intrinsics not modelled)"]
ASSUMPTIONS = []
NOT_DECIDED = []
INC = ["@suites/common"]
DRV = {"cxx": XS.RX_DRIVER, "out": "rx.c", "header": True}

OBLIGATIONS = [
    {"name": "single_call_restores_mxcsr_and_resets_before_first_program", "files": [DRV, "@suites/common/harness_driver.c"], "incdirs": INC,
     "defines": ['RXV_CONTRACTS_H="decls_driver.h"'], "entry": "h_single", "unwind": 10,
     "expect_classes": ["assertion"], "expect_min": 10},
    {"name": "batch_resets_before_first_program", "files": [DRV, "@suites/common/harness_driver.c"], "incdirs": INC,
     "defines": ['RXV_CONTRACTS_H="decls_driver.h"'], "entry": "h_batch", "unwind": 10,
     "expect_classes": ["assertion"], "expect_min": 10, "replay": {"prog": "replay_batch_mxcsr.cpp", "sources": "lib", "flags": ["-O1"], "no_args": True}},
    {"name": "reset_rounding_mode_contract", "files": [{"cxx": XS.VM_RESET, "out": "vm.c", "header": True}, "harness_reset.c"], "incdirs": INC,
     "entry": "h_reset", "replay": {"prog": "replay_mxcsr.cpp", "sources": "lib", "flags": ["-O1"], "vars": ["rxv_mxcsr"]}, "expect_classes": ["assertion"], "expect_min": 3},
]
