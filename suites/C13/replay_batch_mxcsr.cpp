/* Native replay for batch_resets_before_first_program (no verifier inputs needed: the failed clause is about the order of calls):
   the pipelined API on the library built from /repo, with the caller re-establishing a non-default rounding mode (and FTZ/DAZ)
   before EVERY call; the digests must equal those of single calls under the default control word.  exit 1 on a difference. */
#include "randomx.h"
#include <xmmintrin.h>
#include <cstdio>
#include <cstring>
int main() {
	randomx_cache* cache = randomx_alloc_cache(RANDOMX_FLAG_DEFAULT); randomx_init_cache(cache, "replay key", 10);
	randomx_vm* vm = randomx_create_vm(RANDOMX_FLAG_DEFAULT, cache, NULL);
	const char* in[3] = { "batch input A", "batch input B", "batch input C" }; unsigned char ref[3][32], got[3][32];
	_mm_setcsr(0x1F80); for (int i = 0; i < 3; ++i) randomx_calculate_hash(vm, in[i], strlen(in[i]), ref[i]);
	const unsigned modes[] = { 0x3F80, 0x5F80, 0x7F80, 0xDFC0 }; int fails = 0, cases = 0;
	for (unsigned m : modes) {
		_mm_setcsr(m); randomx_calculate_hash_first(vm, in[0], strlen(in[0]));
		_mm_setcsr(m); randomx_calculate_hash_next(vm, in[1], strlen(in[1]), got[0]);
		_mm_setcsr(m); randomx_calculate_hash_next(vm, in[2], strlen(in[2]), got[1]);
		_mm_setcsr(m); randomx_calculate_hash_last(vm, got[2]);
		_mm_setcsr(0x1F80);
		for (int i = 0; i < 3; ++i) { ++cases; if (memcmp(ref[i], got[i], 32)) { printf("FAIL caller MXCSR 0x%04x: pipelined digest %d differs from the single-call digest\n", m, i); ++fails; } }
	}
	printf("CASES %d\n", cases);
	return fails ? 1 : 0;
}
