/* C15: deallocCache<Allocator> (src/dataset.cpp, extracted).  Whatever subset of its resources a cache object holds - a
   completely or partially constructed cache reaches this function on the failure paths of randomx_alloc_cache - each
   resource held is released exactly once, and nothing else is. */
#ifndef RXV_CONTRACTS_DEALLOC_H
#define RXV_CONTRACTS_DEALLOC_H
extern unsigned g_frees, g_deletes; extern void* g_freed; extern size_t g_freed_size; extern void* g_deleted;
void rxv_Allocator_freeMemory(void* p, size_t n)
__CPROVER_requires(1) __CPROVER_assigns(g_frees, g_freed, g_freed_size)
__CPROVER_ensures(g_frees == __CPROVER_old(g_frees) + 1 && g_freed == p && g_freed_size == n);
void rxv_delete(void* p)
__CPROVER_requires(1) __CPROVER_assigns(g_deletes, g_deleted)
__CPROVER_ensures(g_deletes == __CPROVER_old(g_deletes) + 1 && g_deleted == p);

void deallocCache(randomx_cache* cache)
__CPROVER_requires(__CPROVER_is_fresh(cache, sizeof(*cache)) && g_frees == 0 && g_deletes == 0)
__CPROVER_assigns(g_frees, g_freed, g_freed_size, g_deletes, g_deleted)
__CPROVER_ensures(cache->memory != NULL ? (g_frees == 1 && g_freed == cache->memory && g_freed_size == CacheSize) : g_frees == 0)
__CPROVER_ensures(cache->jit != NULL ? (g_deletes == 1 && g_deleted == cache->jit) : g_deletes == 0);
#endif
