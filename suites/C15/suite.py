import os, sys
sys.path.insert(0, os.path.join(os.path.dirname(os.path.abspath(__file__)), "..", "common"))
import cxx_specs as XS

PROPERTY = "C15"
LEVEL = "proof"
EXPLANATION = ("Proof over all failure points: with the k-th allocation request inside randomx_alloc_cache / randomx_alloc_dataset / randomx_create_vm failing (for every k and every flag combination, by exception or by NULL), the call returns NULL with nothing live and no exception escaping, success leaves exactly the expected objects live, and release returns all of them; deallocCache releases each resource a (possibly partially constructed) cache holds exactly once. The VM destructors and the allocators' own bookkeeping are not decided.")
TRUSTED = ['exception-flow model of the extraction: a may-throw stub sets rxv_exc and control leaves the try block after the statement containing the call (exact here because every assigned object is still null at that point)', 'allocation stubs with a ghost ledger stand for operator new, the JIT compiler constructor and the aligned / large-page allocators', 'deallocCache / deallocDataset stubs in the alloc harness carry the contract enforced on the real deallocCache (deallocDataset: by inspection, one line)']
ASSUMPTIONS = []
NOT_DECIDED = ['VM destructors (~VmBase frees the scratchpad, ~CompiledVm the JIT buffer): bodies not under contract', "allocator internals (allocMemoryPages, allocLargePagesMemory, freePagedMemory) and JitCompilerX86's constructor / destructor", 'process-level growth (heap blocks, mapped bytes) over repeated cycles']
INC = ["@suites/common"]
ALLOC = [{"cxx": XS.RX_ALLOC, "out": "rx.c", "header": True}, "harness_alloc.c"]

ALLOC_REPLAY = {"prog": "@suites/C15/replay_alloc_failure.cpp", "no_args": True, "sources": XS.LIB_SOURCES,
                "flags": ["-O1", "-march=native", "-Wl,--wrap=posix_memalign", "-Wl,--wrap=free", "-Wl,--wrap=mmap", "-Wl,--wrap=munmap"]}
OBLIGATIONS = [
    {"name": "dealloc_cache_releases_everything_held", "files": [{"cxx": XS.DEALLOC_CACHE, "out": "ds.c", "header": True}, "harness_dealloc.c"], "incdirs": INC,
     "defines": ['RXV_CONTRACTS_H="contracts_dealloc.h"'], "entry": "h_dealloc_cache", "enforce": "deallocCache",
     "replace": ["rxv_Allocator_freeMemory", "rxv_delete"], "expect_classes": ["postcondition"], "expect_min": 2, "replay": ALLOC_REPLAY},
    {"name": "alloc_cache_fails_cleanly_and_release_returns_everything", "files": ALLOC, "incdirs": INC, "defines": ['RXV_CONTRACTS_H="decls_alloc.h"'], "entry": "h_alloc_cache",
     "expect_classes": ["assertion"], "expect_min": 8, "replay": ALLOC_REPLAY},
    {"name": "alloc_dataset_fails_cleanly_and_release_returns_everything", "files": ALLOC, "incdirs": INC, "defines": ['RXV_CONTRACTS_H="decls_alloc.h"'], "entry": "h_alloc_dataset",
     "expect_classes": ["assertion"], "expect_min": 5},
    {"name": "create_vm_fails_cleanly", "files": [{"cxx": XS.RX_CREATE_VM_EXC, "out": "rx.c", "header": True}, "harness_create_vm_fail.c"],
     "incdirs": INC, "defines": ['RXV_CONTRACTS_H="decls_create_vm.h"'], "entry": "h_create_vm_fail", "expect_classes": ["assertion"], "expect_min": 5, "replay": ALLOC_REPLAY},
]
