import os, sys
sys.path.insert(0, os.path.join(os.path.dirname(os.path.abspath(__file__)), "..", "common"))
import cxx_specs as XS
from imports import imported

PROPERTY = "C15"
LEVEL = "proof"
EXPLANATION = ("Proof over all failure points: with the k-th allocation request inside randomx_alloc_cache / randomx_alloc_dataset / randomx_create_vm failing (for every k and every flag combination, by exception or by NULL), the call returns NULL with nothing live and no exception escaping, success leaves exactly the expected objects live, and release returns all of them; deallocCache releases each resource a (possibly partially constructed) cache holds exactly once. The VM base destructor returns the scratchpad (the pointer allocate stored, with the full ScratchpadSize it was requested with - the request side is C14's allocate obligation), and the x86 JIT compiler object maps exactly CodeSize bytes in its constructor and unmaps the same extent in its destructor. Implicit (compiler-generated) destructors of the derived VM classes and process-level growth are not decided.")
TRUSTED = ['exception-flow model of the extraction: a may-throw stub sets rxv_exc and control leaves the try block after the statement containing the call (exact here because every assigned object is still null at that point)', 'allocation stubs with a ghost ledger stand for operator new, the JIT compiler constructor and the aligned / large-page allocators', 'deallocCache / deallocDataset stubs in the alloc harness carry the contract enforced on the real deallocCache (deallocDataset: by inspection, one line)']
ASSUMPTIONS = []
NOT_DECIDED = ['implicit destructors of the derived VM classes (~CompiledVm destroying its JitCompiler member, virtual dispatch of delete machine): compiler-generated, no text to put under contract', "AlignedAllocator (rx_aligned_alloc / rx_aligned_free = _mm_malloc / _mm_free intrinsics: no C text); LargePageAllocator is under contract; the page functions' contracts are enforced on virtual_memory.c by C16 and used here in place of the bodies", 'process-level growth (heap blocks, mapped bytes) over repeated cycles']
INC = ["@suites/common"]
ALLOC = [{"cxx": XS.RX_ALLOC, "out": "rx.c", "header": True}, "harness_alloc.c"]

ALLOC_REPLAY = {"prog": "@suites/C15/replay_alloc_failure.cpp", "no_args": True, "sources": XS.LIB_SOURCES,
                "flags": ["-O1", "-march=native", "-Wl,--wrap=posix_memalign", "-Wl,--wrap=free", "-Wl,--wrap=mmap", "-Wl,--wrap=munmap"]}
OBLIGATIONS = [
    {"name": "dealloc_cache_releases_everything_held", "files": [{"cxx": XS.DEALLOC_CACHE, "out": "ds.c", "header": True}, "harness_dealloc.c"], "incdirs": INC,
     "defines": ['RXV_CONTRACTS_H="contracts_dealloc.h"'], "entry": "h_dealloc_cache", "enforce": "deallocCache",
     "replace": ["rxv_Allocator_freeMemory", "rxv_delete"], "expect_classes": ["postcondition"], "expect_min": 2, "replay": ALLOC_REPLAY},
    {"name": "vm_destructor_returns_the_scratchpad_with_its_full_size", "files": [{"cxx": XS.VM_DTOR, "out": "vm.c", "header": True}, "harness_vm_dtor.c"], "incdirs": INC,
     "defines": ['RXV_CONTRACTS_H="contracts_vm_dtor.h"', "softAes=0"], "entry": "h_vm_dtor", "enforce": "VmBase_dtor",
     "replace": ["rxv_Allocator_freeMemory"], "expect_classes": ["postcondition", "assigns"], "expect_min": 2},
] + [
    {"name": n, "files": [XS.JIT_SIZES, {"cxx": XS.JIT_PROT, "out": "jit.c", "header": True}, "harness_jit_life.c"],
     "incdirs": INC, "defines": ['RXV_CONTRACTS_H="contracts_jit_life.h"'], "entry": e, "enforce": fn,
     "replace": ["allocMemoryPages", "setPagesRW", "setPagesRX", "setPagesRWX", "freePagedMemory"],
     "checks": ["--bounds-check", "--pointer-check"], "expect_classes": ["postcondition"], "expect_min": 1}
    for n, e, fn in (("jit_constructor_maps_the_code_buffer_once", "h_jit_ctor", "JitCompilerX86_ctor"),
                     ("jit_destructor_unmaps_the_whole_code_buffer", "h_jit_dtor", "JitCompilerX86_dtor"))
] + [
    {"name": "alloc_cache_fails_cleanly_and_release_returns_everything", "files": ALLOC, "incdirs": INC, "defines": ['RXV_CONTRACTS_H="decls_alloc.h"'], "entry": "h_alloc_cache",
     "expect_classes": ["assertion"], "expect_min": 8, "replay": ALLOC_REPLAY},
    {"name": "alloc_dataset_fails_cleanly_and_release_returns_everything", "files": ALLOC, "incdirs": INC, "defines": ['RXV_CONTRACTS_H="decls_alloc.h"'], "entry": "h_alloc_dataset",
     "expect_classes": ["assertion"], "expect_min": 5},
    {"name": "create_vm_fails_cleanly", "files": [{"cxx": XS.RX_CREATE_VM_EXC, "out": "rx.c", "header": True}, "harness_create_vm_fail.c"],
     "incdirs": INC, "defines": ['RXV_CONTRACTS_H="decls_create_vm.h"'], "entry": "h_create_vm_fail", "expect_classes": ["assertion"], "expect_min": 5, "replay": ALLOC_REPLAY},
]
OBLIGATIONS += [
    {"name": n, "files": [{"cxx": XS.LP_ALLOC, "out": "al.c", "header": True}, "harness_lp_alloc.c"], "incdirs": INC,
     "defines": ['RXV_CONTRACTS_H="contracts_lp_alloc.h"', "RXV_THROW(w)=do{g_thrown=1;return 0;}while(0)"], "entry": e, "enforce": fn,
     "replace": ["allocLargePagesMemory", "freePagedMemory"], "expect_classes": ["postcondition"], "expect_min": 1}
    for n, e, fn in (("large_page_allocator_maps_the_requested_size_or_throws", "h_lp_alloc", "LargePageAllocator_allocMemory"),
                     ("large_page_allocator_unmaps_the_size_it_is_given", "h_lp_free", "LargePageAllocator_freeMemory"))
]
# request side of the scratchpad pair: VmBase::allocate asks for exactly ScratchpadSize bytes (the size is a precondition of the
# allocator stand-in) and stores the result in `scratchpad` - the pointer and size ~VmBase returns (obligation above)
_alloc = imported("C14", "vm_allocate_writes_only_thread_owned_objects_hard_aes", "vm_allocate_requests_exactly_the_size_the_destructor_returns")
_alloc.pop("replay", None)
OBLIGATIONS.insert(2, _alloc)
