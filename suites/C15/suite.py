import os, sys
sys.path.insert(0, os.path.join(os.path.dirname(os.path.abspath(__file__)), "..", "common"))
import cxx_specs as XS

PROPERTY = "C15"
LEVEL = "proof"
EXPLANATION = ""
TRUSTED = []
ASSUMPTIONS = []
NOT_DECIDED = []
INC = ["@suites/common"]
ALLOC = [{"cxx": XS.RX_ALLOC, "out": "rx.c", "header": True}, "harness_alloc.c"]

OBLIGATIONS = [
    {"name": "dealloc_cache_releases_everything_held", "files": [{"cxx": XS.DEALLOC_CACHE, "out": "ds.c", "header": True}, "harness_dealloc.c"], "incdirs": INC,
     "defines": ['RXV_CONTRACTS_H="contracts_dealloc.h"'], "entry": "h_dealloc_cache", "enforce": "deallocCache",
     "replace": ["rxv_Allocator_freeMemory", "rxv_delete"], "expect_classes": ["postcondition"], "expect_min": 2},
    {"name": "alloc_cache_fails_cleanly_and_release_returns_everything", "files": ALLOC, "incdirs": INC, "defines": ['RXV_CONTRACTS_H="decls_alloc.h"'], "entry": "h_alloc_cache",
     "expect_classes": ["assertion"], "expect_min": 8},
    {"name": "alloc_dataset_fails_cleanly_and_release_returns_everything", "files": ALLOC, "incdirs": INC, "defines": ['RXV_CONTRACTS_H="decls_alloc.h"'], "entry": "h_alloc_dataset",
     "expect_classes": ["assertion"], "expect_min": 5},
]
