/* declarations of the stand-ins defined in harness_alloc.c (called by the extracted code before their definitions) */
randomx_cache* rxv_new_randomx_cache(void); randomx_dataset* rxv_new_randomx_dataset(void); struct JitCompilerX86* rxv_new_JitCompiler(void);
void* rxv_DefaultAllocator_allocMemory(size_t n); void* rxv_LargePageAllocator_allocMemory(size_t n); void rxv_delete(void* p);
void rxv_deallocCache_Default(randomx_cache* c); void rxv_deallocCache_LargePage(randomx_cache* c);
void rxv_deallocDataset_Default(randomx_dataset* d); void rxv_deallocDataset_LargePage(randomx_dataset* d);
randomx_argon2_impl* selectArgonImpl(randomx_flags flags); DatasetInitFunc* JitCompilerX86_getDatasetInitFunc(struct JitCompilerX86* j);
void initCache(randomx_cache* c, const void* k, size_t n); void initCacheCompile(randomx_cache* c, const void* k, size_t n);
void initDataset(randomx_cache* c, uint8_t* d, uint32_t s, uint32_t e);
