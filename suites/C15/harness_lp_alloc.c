/* LargePageAllocator::allocMemory / freeMemory (extracted from src/allocator.cpp) against contracts_lp_alloc.h.
   throw -> RXV_THROW records the exception in g_thrown and leaves the function (defined by the obligation). */
#include "al.c"
int rxv_prot, rxv_wx_requests, rxv_maps, rxv_unmaps, rxv_map_fail; size_t rxv_mapped_bytes, rxv_unmapped_bytes; int g_thrown;
int nondet_int(void); size_t nondet_size(void);
static void ghosts(void) { rxv_maps = nondet_int(); rxv_unmaps = nondet_int(); __CPROVER_assume(rxv_maps >= 0 && rxv_maps < 1000 && rxv_unmaps >= 0 && rxv_unmaps < 1000);
	rxv_mapped_bytes = nondet_size(); rxv_unmapped_bytes = nondet_size(); __CPROVER_assume(rxv_mapped_bytes < ((size_t)1 << 50) && rxv_unmapped_bytes < ((size_t)1 << 50)); g_thrown = 0; }
void h_lp_alloc(void) { ghosts(); void* p = LargePageAllocator_allocMemory(nondet_size()); __CPROVER_assert(0, "canary"); }
void h_lp_free(void) { ghosts(); void* p; LargePageAllocator_freeMemory(p, nondet_size()); __CPROVER_assert(0, "canary"); }
