/* C15: VmBase<Allocator, softAes>::~VmBase() (src/virtual_machine.cpp, extracted): destroying a VM hands the scratchpad
   acquired by VmBase::allocate (C14 decides: one request of exactly ScratchpadSize bytes, stored in self->scratchpad) back to
   the same allocator exactly once, with the size it was requested with (a short size is a short munmap for the
   large-page allocator), and releases nothing else. */
#ifndef RXV_CONTRACTS_VM_DTOR_H
#define RXV_CONTRACTS_VM_DTOR_H
extern unsigned g_frees; extern void* g_freed; extern size_t g_freed_size;
void rxv_Allocator_freeMemory(void* p, size_t n)
__CPROVER_requires(1) __CPROVER_assigns(g_frees, g_freed, g_freed_size)
__CPROVER_ensures(g_frees == __CPROVER_old(g_frees) + 1 && g_freed == p && g_freed_size == n);

void VmBase_dtor(struct randomx_vm* self)
__CPROVER_requires(__CPROVER_is_fresh(self, sizeof(*self)) && g_frees == 0)
__CPROVER_assigns(g_frees, g_freed, g_freed_size)
__CPROVER_ensures(g_frees == 1 && g_freed == (void*)self->scratchpad && g_freed_size == ScratchpadSize);
#endif
