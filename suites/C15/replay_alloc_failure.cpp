/* Native replay for the C15 obligations (no verifier inputs needed: the counterexample is "request number k fails").
   Built from /repo's sources with the linker wrapping posix_memalign / free / mmap / munmap and with replaced global
   operator new / delete: for every creating call (alloc_cache, alloc_dataset, create_vm), several flag sets and every k,
   the k-th allocation request of the call fails; the call must return NULL, must not throw or crash, and the numbers of
   live heap blocks, live aligned blocks and mapped bytes must return to their values before the call.  Then a fault-free
   create / release cycle must balance as well.  exit 1 on any violation. */
#include <cstdio>
#include <cstdlib>
#include <cstring>
#include <new>
#include <set>
#include <sys/mman.h>
#include "randomx.h"
static long req = 0, fail_at = -1; static long live_new = 0, live_aligned = 0, mapped = 0; static bool counting = false;
static void* aligned_set[64]; static int n_aligned = 0;
static bool fail_now() { if (!counting) return false; return ++req == fail_at; }
void* operator new(size_t n) { if (fail_now()) throw std::bad_alloc(); void* p = malloc(n ? n : 1); if (!p) throw std::bad_alloc(); if (counting) ++live_new; return p; }
void operator delete(void* p) noexcept { if (p && counting) --live_new; free(p); }
void operator delete(void* p, size_t) noexcept { if (p && counting) --live_new; free(p); }
extern "C" {
int __real_posix_memalign(void**, size_t, size_t); void __real_free(void*); void* __real_mmap(void*, size_t, int, int, int, off_t); int __real_munmap(void*, size_t);
int __wrap_posix_memalign(void** out, size_t a, size_t n) { if (fail_now()) return 12; int r = __real_posix_memalign(out, a, n);
	if (r == 0 && counting && n_aligned < 64) { aligned_set[n_aligned++] = *out; ++live_aligned; } return r; }
void __wrap_free(void* p) { for (int i = 0; i < n_aligned; ++i) if (aligned_set[i] == p && p) { aligned_set[i] = aligned_set[--n_aligned]; --live_aligned; break; } __real_free(p); }
void* __wrap_mmap(void* a, size_t n, int pr, int fl, int fd, off_t off) { if (fail_now()) return MAP_FAILED; void* p = __real_mmap(a, n, pr, fl, fd, off); if (p != MAP_FAILED && counting) mapped += (long)n; return p; }
int __wrap_munmap(void* p, size_t n) { if (counting) mapped -= (long)n; return __real_munmap(p, n); }
}
static int fails = 0; static long cases = 0;
static void check(const char* what, int flags, long k, bool is_null) {
	++cases;
	if (live_new || live_aligned || mapped) { printf("FAIL %s(flags=%d) with request #%ld failing: returned %s, leaked heap blocks %+ld, aligned blocks %+ld, mapped bytes %+ld\n",
		what, flags, k, is_null ? "NULL" : "an object", live_new, live_aligned, mapped); ++fails; live_new = live_aligned = mapped = 0; n_aligned = 0; }
}
int main() {
	static randomx_cache* base_cache = randomx_alloc_cache(RANDOMX_FLAG_DEFAULT); randomx_init_cache(base_cache, "k", 1);
	const int cflags[] = { RANDOMX_FLAG_DEFAULT, RANDOMX_FLAG_JIT };
	for (int f : cflags) for (long k = 0; k <= 6; ++k) {          /* k = 0: no injected failure */
		req = 0; fail_at = k ? k : -1; counting = true; randomx_cache* c = nullptr;
		try { c = randomx_alloc_cache((randomx_flags)f); } catch (...) { printf("FAIL alloc_cache(flags=%d) request #%ld: exception escaped\n", f, k); ++fails; }
		if (c) randomx_release_cache(c);
		counting = false; check("randomx_alloc_cache(+release)", f, k, c == nullptr);
	}
	const int vflags[] = { RANDOMX_FLAG_DEFAULT, RANDOMX_FLAG_JIT, RANDOMX_FLAG_JIT | RANDOMX_FLAG_SECURE };
	for (int f : vflags) for (long k = 0; k <= 6; ++k) {
		req = 0; fail_at = k ? k : -1; counting = true; randomx_vm* vm = nullptr;
		try { vm = randomx_create_vm((randomx_flags)f, base_cache, nullptr); } catch (...) { printf("FAIL create_vm(flags=%d) request #%ld: exception escaped\n", f, k); ++fails; }
		if (vm) randomx_destroy_vm(vm);
		counting = false; check("randomx_create_vm(+destroy)", f, k, vm == nullptr);
	}
	printf("CASES %ld\n", cases);
	return fails ? 1 : 0;
}
