#include "ds.c"
unsigned g_frees, g_deletes; void* g_freed; size_t g_freed_size; void* g_deleted;
void h_dealloc_cache(void) { randomx_cache* c; deallocCache(c); __CPROVER_assert(0, "canary"); }
