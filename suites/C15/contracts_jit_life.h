/* C15: the x86 JIT compiler object's code buffer (src/jit_compiler_x86.cpp, extracted).  The constructor maps exactly
   CodeSize bytes once (its failure path throws: decided by create_vm_fails_cleanly / alloc_cache_fails_cleanly); the
   destructor unmaps the same pointer with the same size once.  Ghost bookkeeping: contracts_vmem.h (the contracts of
   allocMemoryPages / freePagedMemory used here are enforced on src/virtual_memory.c by C16's vmem_* obligations). */
#ifndef RXV_CONTRACTS_JIT_LIFE_H
#define RXV_CONTRACTS_JIT_LIFE_H
#include "contracts_vmem.h"
extern void* g_unmapped_ptr;
void JitCompilerX86_ctor(struct JitCompilerX86* self)
__CPROVER_requires(__CPROVER_rw_ok(self, sizeof(*self)))
__CPROVER_assigns(__CPROVER_object_whole(self), RXV_VMEM_GHOST)
__CPROVER_ensures(self->code != NULL && rxv_maps == __CPROVER_old(rxv_maps) + 1 && rxv_mapped_bytes == __CPROVER_old(rxv_mapped_bytes) + CodeSize
	&& rxv_unmaps == __CPROVER_old(rxv_unmaps) && rxv_unmapped_bytes == __CPROVER_old(rxv_unmapped_bytes));

void JitCompilerX86_dtor(struct JitCompilerX86* self)
__CPROVER_requires(__CPROVER_is_fresh(self, sizeof(*self)) && self->code != NULL)
__CPROVER_assigns(rxv_unmaps, rxv_unmapped_bytes)
__CPROVER_ensures(rxv_unmaps == __CPROVER_old(rxv_unmaps) + 1 && rxv_unmapped_bytes == __CPROVER_old(rxv_unmapped_bytes) + CodeSize);
#endif
