/* C15: randomx_create_vm (src/randomx.cpp, extracted with the exception-flow model) when the k-th throwing step fails:
   operator new / constructor of the VM class (the compiled VMs' constructors map the JIT buffer), setCache, setDataset,
   allocate (scratchpad allocation; "Cache/Dataset not set").  STUBS with a ghost ledger.  The VM destructor (run by delete)
   releases what the object holds; its body is not part of this obligation. */
#define RXV_T_AlignedAllocator 1
#define RXV_T_LargePageAllocator 2
#include "rx.c"
int rxv_exc;
static unsigned g_req, g_fail_at; static int live_vm, allocated, deletes_of_null;
static struct randomx_vm the_vm;
int nondet_int(void); unsigned nondet_unsigned(void);
static int fails_now(void) { return g_req++ == g_fail_at; }
static randomx_vm* mk(void) { if (fails_now()) { rxv_exc = 1; return (randomx_vm*)0; } live_vm++; return &the_vm; }
randomx_vm* rxv_new_InterpretedLightVm(int alloc, int soft, randomx_flags f) { return mk(); }
randomx_vm* rxv_new_InterpretedVm(int alloc, int soft, randomx_flags f) { return mk(); }
randomx_vm* rxv_new_CompiledLightVm(int alloc, int soft, int secure, randomx_flags f) { return mk(); }
randomx_vm* rxv_new_CompiledVm(int alloc, int soft, int secure, randomx_flags f) { return mk(); }
void rxv_delete(randomx_vm* vm) {
	if (vm == (randomx_vm*)0) { deletes_of_null++; return; }
	__CPROVER_assert(vm == &the_vm && live_vm == 1, "the VM object is deleted exactly once"); live_vm--; }
void randomx_vm_setCache(randomx_vm* vm, randomx_cache* c) { __CPROVER_assert(vm == &the_vm, "setCache on the constructed VM"); if (fails_now()) rxv_exc = 1; }
void randomx_vm_setDataset(randomx_vm* vm, randomx_dataset* d) { __CPROVER_assert(vm == &the_vm, "setDataset on the constructed VM"); if (fails_now()) rxv_exc = 1; }
void randomx_vm_allocate(randomx_vm* vm) { __CPROVER_assert(vm == &the_vm, "allocate on the constructed VM"); if (fails_now()) { rxv_exc = 1; return; } allocated++; }
_Bool randomx_cache_isInitialized(randomx_cache* c) { return 1; }
void h_create_vm_fail(void) {
	randomx_flags flags = nondet_int();
	static randomx_cache cache; static randomx_dataset dataset;
	randomx_cache* pc = nondet_int() ? &cache : (randomx_cache*)0;
	randomx_dataset* pd = nondet_int() ? &dataset : (randomx_dataset*)0;
	__CPROVER_assume(pc != 0 || (flags & RANDOMX_FLAG_FULL_MEM));
	__CPROVER_assume(pd != 0 || !(flags & RANDOMX_FLAG_FULL_MEM));
	g_req = 0; g_fail_at = nondet_unsigned();
	randomx_vm* vm = randomx_create_vm(flags, pc, pd);
	__CPROVER_assert(rxv_exc == 0, "no exception escapes randomx_create_vm");
	if (vm == (randomx_vm*)0) __CPROVER_assert(live_vm == 0 && g_fail_at < g_req, "failure: the partially constructed VM was deleted, and only a failed request leads here");
	else __CPROVER_assert(vm == &the_vm && live_vm == 1 && allocated == 1 && g_fail_at >= g_req, "success: one live VM, allocated, no request failed");
	__CPROVER_assert(0, "canary");
}
