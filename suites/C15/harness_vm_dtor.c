#include "vm.c"
unsigned g_frees; void* g_freed; size_t g_freed_size;
void h_vm_dtor(void) { struct randomx_vm* vm; VmBase_dtor(vm); __CPROVER_assert(0, "canary"); }
