/* C15: randomx_alloc_cache / randomx_alloc_dataset / randomx_release_* (src/randomx.cpp, extracted) under allocation failure.
   Every allocation request made inside the creating call - operator new of the object, the JIT compiler's constructor
   (which maps the code buffer), the aligned / large-page memory request - is a STUB with a ghost ledger: request number
   g_fail_at (arbitrary, possibly none) fails, either by throwing (exception-flow model of the extraction: rxv_exc) or, for the
   memory requests, by returning NULL.  The ledger counts live objects; releasing something that is not live is an error.
   deallocCache / deallocDataset are STUBS with the contract enforced on the real bodies in dealloc_*_releases_everything. */
#include "rx.c"
int rxv_exc;
static unsigned g_req, g_fail_at; static int g_fail_by_null;
static int live_cache, live_jit, live_mem, live_dataset;
static randomx_cache the_cache; static struct JitCompilerX86 the_jit; static uint8_t the_mem[8]; static randomx_dataset the_dataset;
int nondet_int(void); unsigned nondet_unsigned(void);
static int fails_now(void) { return g_req++ == g_fail_at; }
randomx_cache* rxv_new_randomx_cache(void) { if (fails_now()) { rxv_exc = 1; return NULL; }
	live_cache++; the_cache = (randomx_cache){ 0 }; return &the_cache; }             /* new T() value-initialises */
randomx_dataset* rxv_new_randomx_dataset(void) { if (fails_now()) { rxv_exc = 1; return NULL; }
	live_dataset++; the_dataset = (randomx_dataset){ 0 }; return &the_dataset; }
struct JitCompilerX86* rxv_new_JitCompiler(void) { if (fails_now()) { rxv_exc = 1; return NULL; } live_jit++; return &the_jit; }
static void* alloc_mem(void) { if (fails_now()) { if (!g_fail_by_null) rxv_exc = 1; return NULL; } live_mem++; return the_mem; }
void* rxv_DefaultAllocator_allocMemory(size_t n) { return alloc_mem(); }
void* rxv_LargePageAllocator_allocMemory(size_t n) { return alloc_mem(); }
void rxv_delete(void* p) {
	if (p == &the_cache) { __CPROVER_assert(live_cache == 1, "cache object deleted exactly once"); live_cache--; }
	else if (p == &the_dataset) { __CPROVER_assert(live_dataset == 1, "dataset object deleted exactly once"); live_dataset--; }
	else __CPROVER_assert(p == NULL, "delete of an object this call did not create");
}
static void dealloc_cache_stub(randomx_cache* c) {
	if (c->memory != NULL) { __CPROVER_assert(c->memory == the_mem && live_mem == 1, "cache memory freed exactly once"); live_mem--; }
	if (c->jit != NULL) { __CPROVER_assert(c->jit == &the_jit && live_jit == 1, "JIT compiler deleted exactly once"); live_jit--; }
}
void rxv_deallocCache_Default(randomx_cache* c) { dealloc_cache_stub(c); }
void rxv_deallocCache_LargePage(randomx_cache* c) { dealloc_cache_stub(c); }
static void dealloc_dataset_stub(randomx_dataset* d) {
	if (d->memory != NULL) { __CPROVER_assert(d->memory == the_mem && live_mem == 1, "dataset memory freed exactly once"); live_mem--; } }
void rxv_deallocDataset_Default(randomx_dataset* d) { dealloc_dataset_stub(d); }
void rxv_deallocDataset_LargePage(randomx_dataset* d) { dealloc_dataset_stub(d); }
/* not under test here */
randomx_argon2_impl* selectArgonImpl(randomx_flags flags) { return nondet_int() ? (randomx_argon2_impl*)0 : (randomx_argon2_impl*)&the_mem; }
DatasetInitFunc* JitCompilerX86_getDatasetInitFunc(struct JitCompilerX86* j) { __CPROVER_assert(j == &the_jit, "compiler used only after it was constructed"); return (DatasetInitFunc*)0; }
void initCache(randomx_cache* c, const void* k, size_t n) {}
void initCacheCompile(randomx_cache* c, const void* k, size_t n) {}
void initDataset(randomx_cache* c, uint8_t* d, uint32_t s, uint32_t e) {}

static void setup(void) { g_req = 0; g_fail_at = nondet_unsigned(); g_fail_by_null = nondet_int(); }
void h_alloc_cache(void) {
	setup(); randomx_flags flags = (randomx_flags)nondet_int();
	randomx_cache* c = randomx_alloc_cache(flags);
	__CPROVER_assert(rxv_exc == 0, "no exception escapes randomx_alloc_cache");
	if (c == NULL) __CPROVER_assert(live_cache == 0 && live_jit == 0 && live_mem == 0, "failed allocation: everything acquired so far was released");
	else {
		__CPROVER_assert(c == &the_cache && live_cache == 1 && live_mem == 1 && c->memory == the_mem, "success: cache object and its memory are live");
		__CPROVER_assert(live_jit == ((flags & RANDOMX_FLAG_JIT) ? 1 : 0) && (c->jit != NULL) == ((flags & RANDOMX_FLAG_JIT) != 0), "success: a compiler exists exactly for JIT caches");
		__CPROVER_assert(g_fail_at >= g_req, "success only if no request failed");
		randomx_release_cache(c);
		__CPROVER_assert(live_cache == 0 && live_jit == 0 && live_mem == 0, "release gives back every object the cache acquired");
	}
	__CPROVER_assert(0, "canary");
}
void h_alloc_dataset(void) {
	setup(); randomx_flags flags = (randomx_flags)nondet_int();
	randomx_dataset* d = randomx_alloc_dataset(flags);
	__CPROVER_assert(rxv_exc == 0, "no exception escapes randomx_alloc_dataset");
	if (d == NULL) __CPROVER_assert(live_dataset == 0 && live_mem == 0, "failed allocation: everything acquired so far was released");
	else {
		__CPROVER_assert(d == &the_dataset && live_dataset == 1 && live_mem == 1 && d->memory == the_mem, "success: dataset object and its memory are live");
		randomx_release_dataset(d);
		__CPROVER_assert(live_dataset == 0 && live_mem == 0, "release gives back every object the dataset acquired");
	}
	__CPROVER_assert(0, "canary");
}
