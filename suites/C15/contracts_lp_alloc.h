/* C15: LargePageAllocator (src/allocator.cpp, extracted): allocMemory(count) maps exactly `count` bytes or throws (never
   returns NULL, maps nothing when it throws); freeMemory(ptr, count) unmaps exactly `count` bytes of a non-null pointer.
   allocLargePagesMemory / freePagedMemory: contracts_vmem.h (enforced on src/virtual_memory.c by C16). */
#ifndef RXV_CONTRACTS_LP_ALLOC_H
#define RXV_CONTRACTS_LP_ALLOC_H
#include "contracts_vmem.h"
extern int g_thrown;
void* LargePageAllocator_allocMemory(size_t count)
__CPROVER_requires(count > 0 && count < ((size_t)1 << 40) && g_thrown == 0)
__CPROVER_assigns(RXV_VMEM_GHOST, g_thrown)
__CPROVER_ensures(g_thrown ? rxv_maps == __CPROVER_old(rxv_maps)
	: (__CPROVER_return_value != NULL && rxv_maps == __CPROVER_old(rxv_maps) + 1 && rxv_mapped_bytes == __CPROVER_old(rxv_mapped_bytes) + count))
__CPROVER_ensures(rxv_unmaps == __CPROVER_old(rxv_unmaps) && rxv_unmapped_bytes == __CPROVER_old(rxv_unmapped_bytes));

void LargePageAllocator_freeMemory(void* ptr, size_t count)
__CPROVER_requires(ptr != NULL)
__CPROVER_assigns(rxv_unmaps, rxv_unmapped_bytes)
__CPROVER_ensures(rxv_unmaps == __CPROVER_old(rxv_unmaps) + 1 && rxv_unmapped_bytes == __CPROVER_old(rxv_unmapped_bytes) + count);
#endif
