/* JitCompilerX86 constructor / destructor (extracted) against contracts_jit_life.h; allocMemoryPages / freePagedMemory are
   replaced by their contracts (contracts_vmem.h, enforced on virtual_memory.c in C16). */
#include "jit_sizes.h"
#include "jit.c"
/* STUB: the constructor's copies of the static code blobs are ignored here (their extents are C06's subject) */
void* memcpy(void* d, const void* s, size_t n) { return d; }
int rxv_prot, rxv_wx_requests, rxv_maps, rxv_unmaps, rxv_map_fail; size_t rxv_mapped_bytes, rxv_unmapped_bytes;
int nondet_int(void); size_t nondet_size(void);
static void ghosts(void) { rxv_maps = nondet_int(); rxv_unmaps = nondet_int(); __CPROVER_assume(rxv_maps >= 0 && rxv_maps < 1000 && rxv_unmaps >= 0 && rxv_unmaps < 1000);
	rxv_mapped_bytes = nondet_size(); rxv_unmapped_bytes = nondet_size(); __CPROVER_assume(rxv_mapped_bytes < ((size_t)1 << 50) && rxv_unmapped_bytes < ((size_t)1 << 50)); }
void h_jit_ctor(void) { struct JitCompilerX86 c; ghosts(); JitCompilerX86_ctor(&c); __CPROVER_assert(0, "canary"); }
void h_jit_dtor(void) { struct JitCompilerX86* c; ghosts(); JitCompilerX86_dtor(c); __CPROVER_assert(0, "canary"); }
