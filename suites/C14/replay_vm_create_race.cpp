/* Native replay for the C14 frame obligations (no verifier inputs needed: the failed obligation names a write to shared
   static storage).  Built with -fsanitize=thread from /repo's sources: several threads create and destroy their own
   hardware-AES VMs (interpreted, light mode) over one shared, initialised cache, hash with them and compare with the
   sequential result.  ThreadSanitizer reporting a data race, or any differing hash, makes the program exit 1. */
#include <cstdio>
#include <cstring>
#include <thread>
#include <vector>
#include <string>
#include "randomx.h"
extern "C" const char* __tsan_default_options() { return "exitcode=1 halt_on_error=1 report_signal_unsafe=0"; }
static std::string hash1(randomx_flags f, randomx_cache* c, int i) {
	randomx_vm* vm = randomx_create_vm(f, c, nullptr); char h[RANDOMX_HASH_SIZE]; char in[32]; snprintf(in, sizeof in, "input %d", i);
	randomx_calculate_hash(vm, in, strlen(in), h); randomx_destroy_vm(vm); return std::string(h, RANDOMX_HASH_SIZE);
}
int main() {
	randomx_flags all = randomx_get_flags();
	if (!(all & RANDOMX_FLAG_HARD_AES)) { printf("CASES 0 (no hardware AES on this CPU)\n"); return 0; }
	randomx_flags f = RANDOMX_FLAG_HARD_AES;
	randomx_cache* c = randomx_alloc_cache(RANDOMX_FLAG_DEFAULT); randomx_init_cache(c, "C14 replay key", 14);
	const int T = 4, R = 3; std::vector<std::string> seq(T * R);
	for (int i = 0; i < T * R; ++i) seq[i] = hash1(f, c, i);
	std::vector<std::string> par(T * R); std::vector<std::thread> th;
	for (int t = 0; t < T; ++t) th.emplace_back([&, t] { for (int r = 0; r < R; ++r) par[t * R + r] = hash1(f, c, t * R + r); });
	for (auto& x : th) x.join();
	int fails = 0; for (int i = 0; i < T * R; ++i) if (par[i] != seq[i]) { printf("FAIL hash %d differs from the sequential result\n", i); ++fails; }
	randomx_release_cache(c);
	printf("CASES %d\n", T * R);
	return fails ? 1 : 0;
}
