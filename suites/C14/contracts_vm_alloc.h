/* C14-1: what VmBase<Allocator, softAes>::allocate() (src/virtual_machine.cpp; run by every randomx_create_vm) may write.
   Threads create their VMs concurrently while sharing a cache or dataset, so the frame of this function may contain only
   (a) the VM object being created, (b) the allocator's result, (c) objects with per-thread storage.  A write to any other
   static-storage object is a write to memory every other thread executing the same function also writes: a data race.
   RXV_THREAD_LOCAL_TARGETS is produced by the extraction on every run from the storage class of the file-scope objects. */
#ifndef RXV_CONTRACTS_VM_ALLOC_H
#define RXV_CONTRACTS_VM_ALLOC_H
extern unsigned rxv_allocs;
/* allocator stand-in (AlignedAllocator / LargePageAllocator::allocMemory): result owned by the caller */
void* rxv_Allocator_allocMemory(size_t n)
__CPROVER_requires(n == ScratchpadSize)
__CPROVER_assigns(rxv_allocs)
__CPROVER_ensures(rxv_allocs == __CPROVER_old(rxv_allocs) + 1 && __CPROVER_is_fresh(__CPROVER_return_value, 8));
/* the hardware AES round executed as availability probe: any value (C12 decides what it computes) */
rx_vec_i128 rxv_hard_aesenc(rx_vec_i128 a, rx_vec_i128 k)
__CPROVER_requires(1) __CPROVER_assigns() __CPROVER_ensures(1);

void VmBase_allocate(struct randomx_vm* self)
__CPROVER_requires(__CPROVER_is_fresh(self, sizeof(*self)) && self->datasetPtr != NULL)
__CPROVER_assigns(self->scratchpad, rxv_allocs RXV_THREAD_LOCAL_TARGETS)
__CPROVER_ensures(rxv_allocs == __CPROVER_old(rxv_allocs) + 1 && self->scratchpad != NULL);
#endif
