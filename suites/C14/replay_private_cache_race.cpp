/* Native replay for the generator frame obligations imported into C14: built with -fsanitize=thread from /repo's sources,
   threads allocate, initialise and re-key their own private caches at the same time (program generation runs inside
   randomx_init_cache) and hash with their own VMs; results are compared with a sequential run.  ThreadSanitizer reporting a
   data race, a crash, or any differing hash makes the program exit 1. */
#include <cstdio>
#include <cstring>
#include <csignal>
#include <cstdlib>
#include <unistd.h>
#include <thread>
#include <vector>
#include <string>
#include "randomx.h"
extern "C" const char* __tsan_default_options() { return "exitcode=1 halt_on_error=1 report_signal_unsafe=0"; }
static void on_fault(int s) { const char m[] = "FAIL crash while threads were working on private objects\n"; (void)!write(1, m, sizeof m - 1); _exit(1); }
static std::string work(int t) {
	char key[32]; snprintf(key, sizeof key, "private key %d", t);
	randomx_cache* c = randomx_alloc_cache(RANDOMX_FLAG_DEFAULT); randomx_init_cache(c, "first key", 9); randomx_init_cache(c, key, strlen(key));
	randomx_vm* vm = randomx_create_vm(RANDOMX_FLAG_DEFAULT, c, nullptr); char h[RANDOMX_HASH_SIZE];
	randomx_calculate_hash(vm, "input", 5, h); randomx_destroy_vm(vm); randomx_release_cache(c); return std::string(h, RANDOMX_HASH_SIZE);
}
int main() {
	signal(SIGFPE, on_fault); signal(SIGSEGV, on_fault);
	const int T = 3; std::vector<std::string> seq(T), par(T); std::vector<std::thread> th;
	for (int t = 0; t < T; ++t) seq[t] = work(t);
	for (int t = 0; t < T; ++t) th.emplace_back([&, t] { par[t] = work(t); });
	for (auto& x : th) x.join();
	int fails = 0; for (int t = 0; t < T; ++t) if (par[t] != seq[t]) { printf("FAIL thread %d: hash differs from the sequential result\n", t); ++fails; }
	printf("CASES %d\n", T);
	return fails ? 1 : 0;
}
