import os, sys
sys.path.insert(0, os.path.join(os.path.dirname(os.path.abspath(__file__)), "..", "common"))
import cxx_specs as XS
from imports import imported

PROPERTY = "C14"
LEVEL = "proof"
EXPLANATION = ("Sufficient condition for race freedom decided by frames: VmBase::allocate (run by every create_vm) writes only the VM, the allocator's result and thread-local storage; the program generator (main loop, create, operand selection, port query) writes only the objects it is given (function-local statics are hoisted by the extraction so that the frame check sees them); dataset initialisation writes exactly the requested items; the light dataset read writes only the VM. Interleavings themselves are not explored; ThreadSanitizer replays confirm reported violations.")
TRUSTED = ['ThreadSanitizer replays are dynamic checks of specific schedules (confirmation of reported violations only)', 'extraction rule: function-local non-const statics are hoisted to file scope so that the contract instrumentation does not add them to the frame silently; thread-local file-scope objects are added to the frame (RXV_THREAD_LOCAL_TARGETS)']
ASSUMPTIONS = []
NOT_DECIDED = ['interleavings / memory model (no thread support in CBMC contracts): race freedom is concluded from disjoint frames only', 'compiled VM code buffers, hand-written assembly dataset initialiser re-entrancy', 'frames of the remaining per-VM operations (run, initScratchpad, getFinalResult) beyond what C02/C05 contracts state']
INC = ["@suites/common"]
VM_ALLOC = dict(XS.VM_ALLOCATE, pre_rewrites=XS.VM_ALLOCATE["pre_rewrites"] + [
    {"name": "hardware AES probe -> contract stand-in", "pattern": r"rx_aesenc_vec_i128\(", "repl": "rxv_hard_aesenc("}])

OBLIGATIONS = [
    {"name": "vm_allocate_writes_only_thread_owned_objects_hard_aes", "files": [{"cxx": VM_ALLOC, "out": "vm.c", "header": True}, "harness_vm_alloc.c"],
     "incdirs": INC, "defines": ['RXV_CONTRACTS_H="contracts_vm_alloc.h"', "softAes=0"], "entry": "h_vm_allocate",
     "enforce": "VmBase_allocate", "replace": ["rxv_Allocator_allocMemory", "rxv_hard_aesenc"],
     "expect_classes": ["postcondition", "assigns"], "expect_min": 2,
     "replay": {"prog": "replay_vm_create_race.cpp", "no_args": True, "mem_gb": 0, "flags": ["-O1", "-g", "-fsanitize=thread", "-march=native"],
                "sources": XS.LIB_SOURCES}},
    {"name": "vm_allocate_writes_only_thread_owned_objects_soft_aes", "files": [{"cxx": VM_ALLOC, "out": "vm.c", "header": True}, "harness_vm_alloc.c"],
     "incdirs": INC, "defines": ['RXV_CONTRACTS_H="contracts_vm_alloc.h"', "softAes=1"], "entry": "h_vm_allocate",
     "enforce": "VmBase_allocate", "replace": ["rxv_Allocator_allocMemory", "rxv_hard_aesenc"],
     "expect_classes": ["postcondition", "assigns"], "expect_min": 2},
]
RACE_REPLAY = {"prog": "@suites/C14/replay_private_cache_race.cpp", "no_args": True, "mem_gb": 0,
               "flags": ["-O1", "-g", "-fsanitize=thread", "-march=native"], "sources": XS.LIB_SOURCES}
OBLIGATIONS += [
    # program generation (inside randomx_init_cache, on the thread's own cache) writes only the objects it is given
    dict(imported("C09", "select_destination_obeys_operand_rules_and_frame", "generator_select_destination_writes_no_shared_object"), replay=RACE_REPLAY),
    dict(imported("C09", "select_source_obeys_operand_rules_and_frame", "generator_select_source_writes_no_shared_object"), replay=RACE_REPLAY),
    dict(imported("C09", "generator_skeleton_program_bounds_termination_rule_and_termination", "generator_main_loop_writes_only_the_program_it_is_given"), replay=RACE_REPLAY),
    dict(imported("C09", "create_sets_immediates_and_groups_as_table_6_1_1", "generator_create_writes_only_the_instruction_it_is_given"), replay=RACE_REPLAY),
    dict(imported("C09", "schedule_mop_first_cycle_all_uops_can_execute_commit0", "generator_port_query_writes_nothing"), replay=RACE_REPLAY),
    # dataset initialisation from a shared cache writes exactly the requested items (disjoint ranges -> disjoint writes)
    imported("C08", "init_dataset_writes_exactly_requested_items", "init_dataset_writes_exactly_the_requested_items"),
    # light-mode dataset read: reads the shared cache, writes only the VM's own registers
    imported("C01", "dataset_read_light", "light_dataset_read_writes_only_the_vm"),
]
