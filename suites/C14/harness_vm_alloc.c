#include "vm.c"
unsigned rxv_allocs;
void h_vm_allocate(void) { struct randomx_vm* vm; VmBase_allocate(vm); __CPROVER_assert(0, "canary"); }
