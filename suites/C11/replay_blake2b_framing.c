/* Native replay for the blake2b_update contracts (no verifier inputs needed: the failed clauses are about buffer length,
   compression count and byte counter): the library's streaming Blake2b (src/blake2/blake2b.c, built from /repo) against a
   compact reference implementation of RFC 7693 written here, for every message length 0..400 and several chunkings
   (including chunkings that complete a block exactly and that straddle one).  exit 1 on any differing digest. */
#include <stdio.h>
#include <string.h>
#include <stdint.h>
#include "blake2/blake2.h"
static const uint64_t IV[8] = { 0x6a09e667f3bcc908ULL, 0xbb67ae8584caa73bULL, 0x3c6ef372fe94f82bULL, 0xa54ff53a5f1d36f1ULL,
	0x510e527fade682d1ULL, 0x9b05688c2b3e6c1fULL, 0x1f83d9abfb41bd6bULL, 0x5be0cd19137e2179ULL };
static const uint8_t SIG[12][16] = { { 0, 1, 2, 3, 4, 5, 6, 7, 8, 9, 10, 11, 12, 13, 14, 15 }, { 14, 10, 4, 8, 9, 15, 13, 6, 1, 12, 0, 2, 11, 7, 5, 3 },
	{ 11, 8, 12, 0, 5, 2, 15, 13, 10, 14, 3, 6, 7, 1, 9, 4 }, { 7, 9, 3, 1, 13, 12, 11, 14, 2, 6, 5, 10, 4, 0, 15, 8 },
	{ 9, 0, 5, 7, 2, 4, 10, 15, 14, 1, 11, 12, 6, 8, 3, 13 }, { 2, 12, 6, 10, 0, 11, 8, 3, 4, 13, 7, 5, 15, 14, 1, 9 },
	{ 12, 5, 1, 15, 14, 13, 4, 10, 0, 7, 6, 3, 9, 2, 8, 11 }, { 13, 11, 7, 14, 12, 1, 3, 9, 5, 0, 15, 4, 8, 6, 2, 10 },
	{ 6, 15, 14, 9, 11, 3, 0, 8, 12, 2, 13, 7, 1, 4, 10, 5 }, { 10, 2, 8, 4, 7, 6, 1, 5, 15, 11, 9, 14, 3, 12, 13, 0 },
	{ 0, 1, 2, 3, 4, 5, 6, 7, 8, 9, 10, 11, 12, 13, 14, 15 }, { 14, 10, 4, 8, 9, 15, 13, 6, 1, 12, 0, 2, 11, 7, 5, 3 } };
static uint64_t ror(uint64_t x, int n) { return (x >> n) | (x << (64 - n)); }
static void F(uint64_t h[8], const uint8_t b[128], uint64_t t, int last) {
	uint64_t v[16], m[16];
	for (int i = 0; i < 16; i++) { m[i] = 0; for (int k = 7; k >= 0; k--) m[i] = (m[i] << 8) | b[8 * i + k]; }
	for (int i = 0; i < 8; i++) { v[i] = h[i]; v[i + 8] = IV[i]; }
	v[12] ^= t; if (last) v[14] = ~v[14];
#define GG(a, b, c, d, x, y) v[a] += v[b] + x; v[d] = ror(v[d] ^ v[a], 32); v[c] += v[d]; v[b] = ror(v[b] ^ v[c], 24); \
	v[a] += v[b] + y; v[d] = ror(v[d] ^ v[a], 16); v[c] += v[d]; v[b] = ror(v[b] ^ v[c], 63);
	for (int r = 0; r < 12; r++) { const uint8_t* s = SIG[r];
		GG(0, 4, 8, 12, m[s[0]], m[s[1]]) GG(1, 5, 9, 13, m[s[2]], m[s[3]]) GG(2, 6, 10, 14, m[s[4]], m[s[5]]) GG(3, 7, 11, 15, m[s[6]], m[s[7]])
		GG(0, 5, 10, 15, m[s[8]], m[s[9]]) GG(1, 6, 11, 12, m[s[10]], m[s[11]]) GG(2, 7, 8, 13, m[s[12]], m[s[13]]) GG(3, 4, 9, 14, m[s[14]], m[s[15]]) }
	for (int i = 0; i < 8; i++) h[i] ^= v[i] ^ v[i + 8];
}
static void ref_blake2b(uint8_t* out, size_t outlen, const uint8_t* in, size_t inlen) {
	uint64_t h[8]; uint8_t blk[128]; size_t off = 0;
	for (int i = 0; i < 8; i++) h[i] = IV[i];
	h[0] ^= 0x01010000 ^ outlen;
	while (inlen - off > 128) { F(h, in + off, off + 128, 0); off += 128; }
	memset(blk, 0, 128); memcpy(blk, in + off, inlen - off); F(h, blk, inlen, 1);
	for (size_t i = 0; i < outlen; i++) out[i] = (uint8_t)(h[i / 8] >> (8 * (i % 8)));
}
int main(void) {
	static uint8_t msg[512]; int fails = 0; long cases = 0;
	for (int i = 0; i < 512; i++) msg[i] = (uint8_t)(i * 131 + 7);
	const size_t firsts[] = { 0, 1, 28, 100, 127, 128, 129, 200, 255, 256, 257 };
	for (size_t len = 0; len <= 400; len++) for (unsigned c = 0; c < sizeof firsts / sizeof firsts[0]; c++) {
		size_t a = firsts[c] > len ? len : firsts[c];
		uint8_t want[64], got[64]; blake2b_state S;
		ref_blake2b(want, 64, msg, len);
		blake2b_init(&S, 64); blake2b_update(&S, msg, a); blake2b_update(&S, msg + a, len - a); blake2b_final(&S, got, 64);
		++cases;
		if (memcmp(want, got, 64)) { if (fails < 5) printf("FAIL length %zu fed as %zu + %zu bytes: digest differs from RFC 7693\n", len, a, len - a); ++fails; }
	}
	printf("CASES %ld\n", cases);
	return fails ? 1 : 0;
}
