#include <stddef.h>
size_t rxv_mc_off, rxv_mc_off2;
