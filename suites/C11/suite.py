import os, sys
sys.path.insert(0, os.path.join(os.path.dirname(os.path.abspath(__file__)), "..", "common"))
import cxx_specs as XS

PROPERTY = "C11"
LEVEL = "proof"
EXPLANATION = ('Proof of the Blake2b framing of RFC 7693 3.3 on the unmodified blake2b.c: parameter block, key block, block split, 128-bit byte counter, last-block flag, zero padding and output truncation for every message length (loop contract over the block loop), with the compression function F abstract; and that the commitment is Blake2b-256 of input || hash.')
TRUSTED = ["blake2b_compress == RFC 7693 compression function F (abstract in every obligation; pinned by the 10 digest vectors of the suite)",
           "stubs/memstub.c: memcpy/memset over-approximation with two precisely tracked destination bytes"]
ASSUMPTIONS = ["message lengths are bounded by CBMC's largest representable object (2^54 bytes)"]
NOT_DECIDED = []

WOVEN = {"weave": "@repo/src/blake2/blake2b.c", "out": "blake2b_woven.c", "header": True,
         "loops": [{"function": "blake2b_update", "expect_loops": 1, "loops": {"0": "RXV_UPDATE_LOOP_INVARIANT"}}]}
FRAMING_REPLAY = {"prog": "replay_blake2b_framing.c", "sources": ["src/blake2/blake2b.c"], "flags": ["-O1"], "no_args": True}
BASE = {"incdirs": ["@repo/src/blake2"], "expect_classes": ["postcondition"], "expect_min": 20, "timeout": 1500, "replay": FRAMING_REPLAY}


def ob(name, entry, enforce, replace, stub=True, **kw):
    o = dict(BASE)
    o.update({"name": name, "entry": entry, "enforce": enforce, "replace": replace,
              "files": [WOVEN, "harness_blake2b.c", "ghost_blake2b.c"] + (["@stubs/memstub.c"] if stub else ["ghost_memstub.c"])})
    o.update(kw)
    return o


WOVEN_ARITH = {"weave": "@repo/src/blake2/blake2b.c", "out": "blake2b_woven.c", "header": True,
               "loops": [{"function": "blake2b_update", "expect_loops": 1, "loops": {"0": "RXV_UPDATE_LOOP_INVARIANT_ARITH"}}]}
OBLIGATIONS = [
    dict(ob("update_arith_contract", "h_update", "randomx_blake2b_update/rxv_update_arith", ["blake2b_compress"], loop_contracts=True, tier="thorough",
            backend="kissat", timeout=3600, expect_classes=["postcondition", "loop_invariant_base", "loop_invariant_step"], weight=5),
         files=[WOVEN_ARITH, "harness_blake2b.c", "ghost_blake2b.c", "@stubs/memstub128.c"]),
    dict(ob("update_contract", "h_update", "randomx_blake2b_update", ["blake2b_compress"], loop_contracts=True, tier="attempt", timeout=7200, backend="kissat",
            expect_classes=["postcondition", "loop_invariant_base", "loop_invariant_step"], weight=5),
         files=[WOVEN, "harness_blake2b.c", "ghost_blake2b.c", "@stubs/memstub128.c"]),
    dict(ob("update_arith_contract_input_fits_buffer", "h_update", "randomx_blake2b_update/rxv_update_arith_small", ["blake2b_compress"], loop_contracts=True,
            backend="kissat", expect_classes=["postcondition"], expect_min=4, weight=3),
         files=[WOVEN_ARITH, "harness_blake2b.c", "ghost_blake2b.c", "@stubs/memstub128.c"]),
    dict(ob("update_arith_contract_one_block_completed", "h_update", "randomx_blake2b_update/rxv_update_arith_oneblock", ["blake2b_compress"], loop_contracts=True,
            backend="kissat", expect_classes=["postcondition"], expect_min=4, weight=3),
         files=[WOVEN_ARITH, "harness_blake2b.c", "ghost_blake2b.c", "@stubs/memstub128.c"]),
    dict(ob("update_contract_input_fits_buffer", "h_update", "randomx_blake2b_update/rxv_update_small", ["blake2b_compress"], loop_contracts=True,
            backend="kissat", expect_classes=["postcondition"], expect_min=8, weight=3, tier="attempt"),
         files=[WOVEN, "harness_blake2b.c", "ghost_blake2b.c", "@stubs/memstub128.c"]),
    ob("final_contract", "h_final", "randomx_blake2b_final", ["blake2b_compress"],
       unwindset=["memcpy.0:9", "memset.0:17", "randomx_blake2b_final.0:9"]),
    ob("init_param_contract", "h_init_param", "randomx_blake2b_init_param", [], stub=False,
       unwindset=["randomx_blake2b_init_param.0:9"]),
    ob("init_contract", "h_init", "randomx_blake2b_init", ["randomx_blake2b_init_param"], stub=False),
    ob("init_key_contract", "h_init_key", "randomx_blake2b_init_key", ["randomx_blake2b_init_param", "randomx_blake2b_update"],
       unwindset=["memcpy.0:9", "memset.0:17"]),
    {
        "name": "commitment_is_blake2b256_of_input_then_hash",
        "files": [{"cxx": XS.RX_COMMIT, "out": "rx.c", "header": True}, "harness_commitment.c", "@suites/common/ghost_blake2b_stream.c"],
        "incdirs": ["@suites/common"], "defines": ['RXV_CONTRACTS_H="contracts_blake2b_stream.h"'],
        "entry": "h_commitment",
        "replace": ["randomx_blake2b_init", "randomx_blake2b_update", "randomx_blake2b_final"],
        "unwindset": ["h_commitment.0:33"],
        "expect_classes": ["assertion", "precondition"], "expect_min": 8,
    },
]
