/* Contracts for src/blake2/blake2b.c (unmodified C; the file is #included by the harness so that the static
   compression function can carry a contract).  Postconditions restate RFC 7693 section 3.3 (framing): block split,
   128-bit byte counter, last-block flag, zero padding, parameter block; the compression function F itself is
   abstract (TRUSTED: blake2b_compress == RFC 7693 F is out of reach of the installed back ends, DESIGN section 2).

   Ghost probes (all nondeterministic, fixed before a call, so every clause holds for every value):
     rxv_pk   ordinal of a compression call        rxv_pb   byte index inside a 128-byte block
     rxv_px   position in the byte stream a call appends to (old buffer || input)
     rxv_po   index into an output buffer          rxv_mc_off / rxv_mc_off2   bytes tracked by the memcpy stub */
#ifndef RXV_CONTRACTS_BLAKE2B_H
#define RXV_CONTRACTS_BLAKE2B_H
#include <stdint.h>
#include <stddef.h>
#include "blake2/blake2.h"

extern unsigned rxv_pb;
extern uint64_t rxv_pk, rxv_px;
extern size_t rxv_po;
extern size_t rxv_mc_off, rxv_mc_off2;
/* ---- ghost log of the compression calls ---- */
extern uint64_t rxv_ncomp;         /* number of compression calls so far */
extern uint64_t rxv_k_t0, rxv_k_t1, rxv_k_f0, rxv_k_f1; extern uint8_t rxv_k_byte; /* record of call number rxv_pk */
#define RXV_LOG_ASSIGNS rxv_ncomp, rxv_k_t0, rxv_k_t1, rxv_k_f0, rxv_k_f1, rxv_k_byte
#define RXV_LOG_UNCHANGED (rxv_k_t0 == __CPROVER_old(rxv_k_t0) && rxv_k_t1 == __CPROVER_old(rxv_k_t1) && \
	rxv_k_f0 == __CPROVER_old(rxv_k_f0) && rxv_k_f1 == __CPROVER_old(rxv_k_f1) && rxv_k_byte == __CPROVER_old(rxv_k_byte))

static void blake2b_compress(blake2b_state *S, const uint8_t *block)
__CPROVER_requires(__CPROVER_rw_ok(S, sizeof(*S)) && __CPROVER_r_ok(block, 128) && rxv_pb < 128)
__CPROVER_assigns(__CPROVER_object_upto(S->h, sizeof(S->h)), RXV_LOG_ASSIGNS)
__CPROVER_ensures(rxv_ncomp == __CPROVER_old(rxv_ncomp) + 1)
__CPROVER_ensures(__CPROVER_old(rxv_ncomp) == rxv_pk
	? (rxv_k_t0 == S->t[0] && rxv_k_t1 == S->t[1] && rxv_k_f0 == S->f[0] && rxv_k_f1 == S->f[1] && rxv_k_byte == block[rxv_pb])
	: RXV_LOG_UNCHANGED);

#define RXV_MAX_LEN ((size_t)1 << 54)     /* largest object CBMC's memory model represents (stated bound on lengths) */
#define RXV_BUF_OFF 96                    /* offsetof(blake2b_state, buf) */
#define RXV_TRACKED(off) (rxv_mc_off == (off) || rxv_mc_off2 == (off))

/* ---- blake2b_update ----
   Abstract view: the state holds a byte stream = (blocks already compressed) || buf[0..buflen).  update(in) appends
   `in`; afterwards everything except the last 1..128 bytes has been compressed, block by block, with the counter t
   (128 bit) equal to the number of stream bytes up to and including the block, and the final flag clear. */
#define RXV_NEWBUFLEN(bl, n) ((unsigned)((((uint64_t)(bl) + (n) - 1) % 128) + 1))
#define RXV_CAT_OLD(S, in) (rxv_px < __CPROVER_old(S->buflen) ? __CPROVER_old(S->buf[rxv_px % 128]) : \
	((const uint8_t*)(in))[rxv_px - __CPROVER_old(S->buflen)])
#define RXV_TOTAL(S, inlen) (__CPROVER_old(S->buflen) + (inlen))
#define RXV_UPD_REGULAR(S, inlen) ((inlen) > 0 && __CPROVER_old(S->f[0]) == 0)
/* the compression-log probe designates the call that consumes stream position px */
#define RXV_PROBE_FOLLOWS_STREAM (rxv_pb == rxv_px % 128 && rxv_pk == __CPROVER_old(rxv_ncomp) + rxv_px / 128)

int blake2b_update(blake2b_state *S, const void *in, size_t inlen)
__CPROVER_requires(__CPROVER_is_fresh(S, sizeof(*S)))
__CPROVER_requires(inlen < RXV_MAX_LEN && (inlen == 0 || __CPROVER_is_fresh(in, inlen)))
__CPROVER_requires(S->buflen <= 128 && rxv_pb < 128)
__CPROVER_assigns(__CPROVER_object_whole(S), RXV_LOG_ASSIGNS)
/* nothing to do / finalised state: documented return value and no change at all */
__CPROVER_ensures(inlen == 0 ==> (__CPROVER_return_value == 0 && rxv_ncomp == __CPROVER_old(rxv_ncomp) && S->buflen == __CPROVER_old(S->buflen)
	&& S->t[0] == __CPROVER_old(S->t[0]) && S->t[1] == __CPROVER_old(S->t[1]) && S->buf[rxv_px % 128] == __CPROVER_old(S->buf[rxv_px % 128])
	&& RXV_LOG_UNCHANGED))
__CPROVER_ensures((inlen > 0 && __CPROVER_old(S->f[0]) != 0) ==> (__CPROVER_return_value == -1 && rxv_ncomp == __CPROVER_old(rxv_ncomp)
	&& S->buflen == __CPROVER_old(S->buflen) && S->t[0] == __CPROVER_old(S->t[0]) && S->t[1] == __CPROVER_old(S->t[1]) && RXV_LOG_UNCHANGED))
/* the regular case: new buffer length, number of compressions, 128-bit counter */
__CPROVER_ensures(RXV_UPD_REGULAR(S, inlen) ==> (__CPROVER_return_value == 0
	&& S->buflen == RXV_NEWBUFLEN(__CPROVER_old(S->buflen), inlen)
	&& rxv_ncomp == __CPROVER_old(rxv_ncomp) + (RXV_TOTAL(S, inlen) - S->buflen) / 128
	&& S->t[0] == __CPROVER_old(S->t[0]) + 128 * (rxv_ncomp - __CPROVER_old(rxv_ncomp))
	&& S->t[1] == __CPROVER_old(S->t[1]) + (S->t[0] < __CPROVER_old(S->t[0]) ? 1 : 0)))
/* the retained bytes are the tail of the stream (clause proved for the byte the memcpy stub tracks) */
__CPROVER_ensures((RXV_UPD_REGULAR(S, inlen) && rxv_px < RXV_TOTAL(S, inlen) && rxv_px >= RXV_TOTAL(S, inlen) - S->buflen
	&& RXV_TRACKED(RXV_BUF_OFF + (rxv_px - (RXV_TOTAL(S, inlen) - S->buflen))))
	==> S->buf[rxv_px - (RXV_TOTAL(S, inlen) - S->buflen)] == RXV_CAT_OLD(S, in))
/* everything before the tail was compressed in stream order, 128 bytes per call, counter = bytes so far, final flag clear */
__CPROVER_ensures((RXV_UPD_REGULAR(S, inlen) && RXV_PROBE_FOLLOWS_STREAM && rxv_px < RXV_TOTAL(S, inlen) - S->buflen
	&& (rxv_px >= 128 || RXV_TRACKED(RXV_BUF_OFF + rxv_pb)))   /* the first block goes through buf: tracked byte */
	==> (rxv_k_byte == RXV_CAT_OLD(S, in)
		&& rxv_k_t0 == __CPROVER_old(S->t[0]) + 128 * (rxv_px / 128 + 1)
		&& rxv_k_t1 == __CPROVER_old(S->t[1]) + (rxv_k_t0 < __CPROVER_old(S->t[0]) ? 1 : 0)
		&& rxv_k_f0 == 0 && rxv_k_f1 == __CPROVER_old(S->f[1])))
/* the chaining value changes only through compression calls */
#define RXV_H_KEPT(S) (S->h[0] == __CPROVER_old(S->h[0]) && S->h[1] == __CPROVER_old(S->h[1]) && S->h[2] == __CPROVER_old(S->h[2]) \
	&& S->h[3] == __CPROVER_old(S->h[3]) && S->h[4] == __CPROVER_old(S->h[4]) && S->h[5] == __CPROVER_old(S->h[5]) \
	&& S->h[6] == __CPROVER_old(S->h[6]) && S->h[7] == __CPROVER_old(S->h[7]))
__CPROVER_ensures(rxv_ncomp == __CPROVER_old(rxv_ncomp) ==> RXV_H_KEPT(S))
/* records of calls that are not made by this update are untouched */
__CPROVER_ensures((rxv_pk < __CPROVER_old(rxv_ncomp) || rxv_pk >= rxv_ncomp) ==> RXV_LOG_UNCHANGED)
__CPROVER_ensures(S->f[0] == __CPROVER_old(S->f[0]) && S->f[1] == __CPROVER_old(S->f[1])
	&& S->outlen == __CPROVER_old(S->outlen) && S->last_node == __CPROVER_old(S->last_node));

/* the same contract (all clauses) under the extra precondition that the input fits into the buffer: this case needs no
   loop contract (the block loop is not entered) and is decided in seconds; together with the general contract (thorough
   tier) it is a case split, not a weaker statement */
int rxv_update_small(blake2b_state *S, const void *in, size_t inlen)
__CPROVER_requires(__CPROVER_is_fresh(S, sizeof(*S)))
__CPROVER_requires(inlen < RXV_MAX_LEN && (inlen == 0 || __CPROVER_is_fresh(in, inlen)))
__CPROVER_requires(S->buflen <= 128 && rxv_pb < 128)
/* case split: the appended bytes still fit into the buffer (at most one block pending): no compression may happen */
__CPROVER_requires(S->buflen + inlen <= 128)
__CPROVER_assigns(__CPROVER_object_whole(S), RXV_LOG_ASSIGNS)
/* nothing to do / finalised state: documented return value and no change at all */
__CPROVER_ensures(inlen == 0 ==> (__CPROVER_return_value == 0 && rxv_ncomp == __CPROVER_old(rxv_ncomp) && S->buflen == __CPROVER_old(S->buflen)
	&& S->t[0] == __CPROVER_old(S->t[0]) && S->t[1] == __CPROVER_old(S->t[1]) && S->buf[rxv_px % 128] == __CPROVER_old(S->buf[rxv_px % 128])
	&& RXV_LOG_UNCHANGED))
__CPROVER_ensures((inlen > 0 && __CPROVER_old(S->f[0]) != 0) ==> (__CPROVER_return_value == -1 && rxv_ncomp == __CPROVER_old(rxv_ncomp)
	&& S->buflen == __CPROVER_old(S->buflen) && S->t[0] == __CPROVER_old(S->t[0]) && S->t[1] == __CPROVER_old(S->t[1]) && RXV_LOG_UNCHANGED))
/* the regular case: new buffer length, number of compressions, 128-bit counter */
__CPROVER_ensures(RXV_UPD_REGULAR(S, inlen) ==> (__CPROVER_return_value == 0
	&& S->buflen == RXV_NEWBUFLEN(__CPROVER_old(S->buflen), inlen)
	&& rxv_ncomp == __CPROVER_old(rxv_ncomp) + (RXV_TOTAL(S, inlen) - S->buflen) / 128
	&& S->t[0] == __CPROVER_old(S->t[0]) + 128 * (rxv_ncomp - __CPROVER_old(rxv_ncomp))
	&& S->t[1] == __CPROVER_old(S->t[1]) + (S->t[0] < __CPROVER_old(S->t[0]) ? 1 : 0)))
/* the retained bytes are the tail of the stream (clause proved for the byte the memcpy stub tracks) */
__CPROVER_ensures((RXV_UPD_REGULAR(S, inlen) && rxv_px < RXV_TOTAL(S, inlen) && rxv_px >= RXV_TOTAL(S, inlen) - S->buflen
	&& RXV_TRACKED(RXV_BUF_OFF + (rxv_px - (RXV_TOTAL(S, inlen) - S->buflen))))
	==> S->buf[rxv_px - (RXV_TOTAL(S, inlen) - S->buflen)] == RXV_CAT_OLD(S, in))
/* everything before the tail was compressed in stream order, 128 bytes per call, counter = bytes so far, final flag clear */
__CPROVER_ensures((RXV_UPD_REGULAR(S, inlen) && RXV_PROBE_FOLLOWS_STREAM && rxv_px < RXV_TOTAL(S, inlen) - S->buflen
	&& (rxv_px >= 128 || RXV_TRACKED(RXV_BUF_OFF + rxv_pb)))   /* the first block goes through buf: tracked byte */
	==> (rxv_k_byte == RXV_CAT_OLD(S, in)
		&& rxv_k_t0 == __CPROVER_old(S->t[0]) + 128 * (rxv_px / 128 + 1)
		&& rxv_k_t1 == __CPROVER_old(S->t[1]) + (rxv_k_t0 < __CPROVER_old(S->t[0]) ? 1 : 0)
		&& rxv_k_f0 == 0 && rxv_k_f1 == __CPROVER_old(S->f[1])))
/* the chaining value changes only through compression calls */
__CPROVER_ensures(rxv_ncomp == __CPROVER_old(rxv_ncomp) ==> RXV_H_KEPT(S))
/* records of calls that are not made by this update are untouched */
__CPROVER_ensures((rxv_pk < __CPROVER_old(rxv_ncomp) || rxv_pk >= rxv_ncomp) ==> RXV_LOG_UNCHANGED)
__CPROVER_ensures(S->f[0] == __CPROVER_old(S->f[0]) && S->f[1] == __CPROVER_old(S->f[1])
	&& S->outlen == __CPROVER_old(S->outlen) && S->last_node == __CPROVER_old(S->last_node));

/* the arithmetic part of the same contract (buffer length, number of compressions, 128-bit counter, frame), as a
   separate contract symbol so that it can be enforced on its own (smaller solver query) */
int rxv_update_arith(blake2b_state *S, const void *in, size_t inlen)
__CPROVER_requires(__CPROVER_is_fresh(S, sizeof(*S)))
__CPROVER_requires(inlen < RXV_MAX_LEN && (inlen == 0 || __CPROVER_is_fresh(in, inlen)))
__CPROVER_requires(S->buflen <= 128 && rxv_pb < 128)
__CPROVER_assigns(__CPROVER_object_whole(S), RXV_LOG_ASSIGNS)
__CPROVER_ensures(inlen == 0 ==> (__CPROVER_return_value == 0 && rxv_ncomp == __CPROVER_old(rxv_ncomp) && S->buflen == __CPROVER_old(S->buflen)
	&& S->t[0] == __CPROVER_old(S->t[0]) && S->t[1] == __CPROVER_old(S->t[1])))
__CPROVER_ensures((inlen > 0 && __CPROVER_old(S->f[0]) != 0) ==> (__CPROVER_return_value == -1 && rxv_ncomp == __CPROVER_old(rxv_ncomp)
	&& S->buflen == __CPROVER_old(S->buflen) && S->t[0] == __CPROVER_old(S->t[0]) && S->t[1] == __CPROVER_old(S->t[1])))
__CPROVER_ensures(RXV_UPD_REGULAR(S, inlen) ==> (__CPROVER_return_value == 0
	&& S->buflen == RXV_NEWBUFLEN(__CPROVER_old(S->buflen), inlen)
	&& rxv_ncomp == __CPROVER_old(rxv_ncomp) + (RXV_TOTAL(S, inlen) - S->buflen) / 128
	&& S->t[0] == __CPROVER_old(S->t[0]) + 128 * (rxv_ncomp - __CPROVER_old(rxv_ncomp))
	&& S->t[1] == __CPROVER_old(S->t[1]) + (S->t[0] < __CPROVER_old(S->t[0]) ? 1 : 0)))
__CPROVER_ensures(S->f[0] == __CPROVER_old(S->f[0]) && S->f[1] == __CPROVER_old(S->f[1])
	&& S->outlen == __CPROVER_old(S->outlen) && S->last_node == __CPROVER_old(S->last_node));

int rxv_update_arith_oneblock(blake2b_state *S, const void *in, size_t inlen)
__CPROVER_requires(__CPROVER_is_fresh(S, sizeof(*S)))
__CPROVER_requires(inlen < RXV_MAX_LEN && (inlen == 0 || __CPROVER_is_fresh(in, inlen)))
__CPROVER_requires(S->buflen <= 128 && rxv_pb < 128)
__CPROVER_requires(S->buflen + inlen > 128 && S->buflen + inlen <= 256)   /* case: exactly one block is completed and compressed */
__CPROVER_assigns(__CPROVER_object_whole(S), RXV_LOG_ASSIGNS)
__CPROVER_ensures(inlen == 0 ==> (__CPROVER_return_value == 0 && rxv_ncomp == __CPROVER_old(rxv_ncomp) && S->buflen == __CPROVER_old(S->buflen)
	&& S->t[0] == __CPROVER_old(S->t[0]) && S->t[1] == __CPROVER_old(S->t[1])))
__CPROVER_ensures((inlen > 0 && __CPROVER_old(S->f[0]) != 0) ==> (__CPROVER_return_value == -1 && rxv_ncomp == __CPROVER_old(rxv_ncomp)
	&& S->buflen == __CPROVER_old(S->buflen) && S->t[0] == __CPROVER_old(S->t[0]) && S->t[1] == __CPROVER_old(S->t[1])))
__CPROVER_ensures(RXV_UPD_REGULAR(S, inlen) ==> (__CPROVER_return_value == 0
	&& S->buflen == RXV_NEWBUFLEN(__CPROVER_old(S->buflen), inlen)
	&& rxv_ncomp == __CPROVER_old(rxv_ncomp) + (RXV_TOTAL(S, inlen) - S->buflen) / 128
	&& S->t[0] == __CPROVER_old(S->t[0]) + 128 * (rxv_ncomp - __CPROVER_old(rxv_ncomp))
	&& S->t[1] == __CPROVER_old(S->t[1]) + (S->t[0] < __CPROVER_old(S->t[0]) ? 1 : 0)))
__CPROVER_ensures(S->f[0] == __CPROVER_old(S->f[0]) && S->f[1] == __CPROVER_old(S->f[1])
	&& S->outlen == __CPROVER_old(S->outlen) && S->last_node == __CPROVER_old(S->last_node));

int rxv_update_arith_small(blake2b_state *S, const void *in, size_t inlen)
__CPROVER_requires(__CPROVER_is_fresh(S, sizeof(*S)))
__CPROVER_requires(inlen < RXV_MAX_LEN && (inlen == 0 || __CPROVER_is_fresh(in, inlen)))
__CPROVER_requires(S->buflen <= 128 && rxv_pb < 128)
__CPROVER_requires(S->buflen + inlen <= 128)   /* case: the input fits into the buffer - no compression may happen */
__CPROVER_assigns(__CPROVER_object_whole(S), RXV_LOG_ASSIGNS)
__CPROVER_ensures(inlen == 0 ==> (__CPROVER_return_value == 0 && rxv_ncomp == __CPROVER_old(rxv_ncomp) && S->buflen == __CPROVER_old(S->buflen)
	&& S->t[0] == __CPROVER_old(S->t[0]) && S->t[1] == __CPROVER_old(S->t[1])))
__CPROVER_ensures((inlen > 0 && __CPROVER_old(S->f[0]) != 0) ==> (__CPROVER_return_value == -1 && rxv_ncomp == __CPROVER_old(rxv_ncomp)
	&& S->buflen == __CPROVER_old(S->buflen) && S->t[0] == __CPROVER_old(S->t[0]) && S->t[1] == __CPROVER_old(S->t[1])))
__CPROVER_ensures(RXV_UPD_REGULAR(S, inlen) ==> (__CPROVER_return_value == 0
	&& S->buflen == RXV_NEWBUFLEN(__CPROVER_old(S->buflen), inlen)
	&& rxv_ncomp == __CPROVER_old(rxv_ncomp) + (RXV_TOTAL(S, inlen) - S->buflen) / 128
	&& S->t[0] == __CPROVER_old(S->t[0]) + 128 * (rxv_ncomp - __CPROVER_old(rxv_ncomp))
	&& S->t[1] == __CPROVER_old(S->t[1]) + (S->t[0] < __CPROVER_old(S->t[0]) ? 1 : 0)))
__CPROVER_ensures(S->f[0] == __CPROVER_old(S->f[0]) && S->f[1] == __CPROVER_old(S->f[1])
	&& S->outlen == __CPROVER_old(S->outlen) && S->last_node == __CPROVER_old(S->last_node));

/* compression log during the block loop: records of earlier calls are kept; the call for the probed ordinal, once
   made, recorded the block byte / counter / flags the stream position demands */
#define RXV_LOOP_LOG_KEPT (rxv_k_byte == __CPROVER_loop_entry(rxv_k_byte) && rxv_k_t0 == __CPROVER_loop_entry(rxv_k_t0) \
	&& rxv_k_t1 == __CPROVER_loop_entry(rxv_k_t1) && rxv_k_f0 == __CPROVER_loop_entry(rxv_k_f0) && rxv_k_f1 == __CPROVER_loop_entry(rxv_k_f1))
#define RXV_UPDATE_LOG_INV ( \
	((rxv_pk >= __CPROVER_loop_entry(rxv_ncomp) && rxv_pk < rxv_ncomp) || RXV_LOOP_LOG_KEPT) \
	&& (!(rxv_pk >= __CPROVER_loop_entry(rxv_ncomp) && rxv_pk < rxv_ncomp) || ( \
		rxv_k_byte == __CPROVER_loop_entry(pin)[128 * (rxv_pk - __CPROVER_loop_entry(rxv_ncomp)) + rxv_pb] \
		&& rxv_k_t0 == __CPROVER_loop_entry(S->t[0]) + 128 * (rxv_pk - __CPROVER_loop_entry(rxv_ncomp) + 1) \
		&& rxv_k_t1 == __CPROVER_loop_entry(S->t[1]) + (rxv_k_t0 < __CPROVER_loop_entry(S->t[0]) ? 1 : 0) \
		&& rxv_k_f0 == 0 && rxv_k_f1 == S->f[1])))

#define RXV_UPDATE_LOOP_INVARIANT_ARITH \
	__CPROVER_assigns(inlen, pin, __CPROVER_object_upto(S->h, sizeof(S->h)), __CPROVER_object_upto(S->t, sizeof(S->t)), RXV_LOG_ASSIGNS) \
	__CPROVER_loop_invariant(__CPROVER_same_object(pin, in) && S->buflen == 0 && S->f[0] == 0) \
	__CPROVER_loop_invariant(inlen >= 1 && inlen <= __CPROVER_loop_entry(inlen) && (__CPROVER_loop_entry(inlen) - inlen) % 128 == 0) \
	__CPROVER_loop_invariant(__CPROVER_POINTER_OFFSET(pin) - __CPROVER_POINTER_OFFSET(__CPROVER_loop_entry(pin)) == (__CPROVER_ssize_t)(__CPROVER_loop_entry(inlen) - inlen)) \
	__CPROVER_loop_invariant(rxv_ncomp == __CPROVER_loop_entry(rxv_ncomp) + (__CPROVER_loop_entry(inlen) - inlen) / 128) \
	__CPROVER_loop_invariant(S->t[0] == __CPROVER_loop_entry(S->t[0]) + (__CPROVER_loop_entry(inlen) - inlen)) \
	__CPROVER_loop_invariant(S->t[1] == __CPROVER_loop_entry(S->t[1]) + (S->t[0] < __CPROVER_loop_entry(S->t[0]) ? 1 : 0)) \
	__CPROVER_loop_invariant(S->f[1] == __CPROVER_loop_entry(S->f[1])) \
	__CPROVER_decreases(inlen)

#define RXV_UPDATE_LOOP_INVARIANT \
	__CPROVER_assigns(inlen, pin, __CPROVER_object_upto(S->h, sizeof(S->h)), __CPROVER_object_upto(S->t, sizeof(S->t)), RXV_LOG_ASSIGNS) \
	__CPROVER_loop_invariant(__CPROVER_same_object(pin, in) && S->buflen == 0 && S->f[0] == 0) \
	__CPROVER_loop_invariant(inlen >= 1 && inlen <= __CPROVER_loop_entry(inlen) && (__CPROVER_loop_entry(inlen) - inlen) % 128 == 0) \
	__CPROVER_loop_invariant(__CPROVER_POINTER_OFFSET(pin) - __CPROVER_POINTER_OFFSET(__CPROVER_loop_entry(pin)) == (__CPROVER_ssize_t)(__CPROVER_loop_entry(inlen) - inlen)) \
	__CPROVER_loop_invariant(rxv_ncomp == __CPROVER_loop_entry(rxv_ncomp) + (__CPROVER_loop_entry(inlen) - inlen) / 128) \
	__CPROVER_loop_invariant(S->t[0] == __CPROVER_loop_entry(S->t[0]) + (__CPROVER_loop_entry(inlen) - inlen)) \
	__CPROVER_loop_invariant(S->t[1] == __CPROVER_loop_entry(S->t[1]) + (S->t[0] < __CPROVER_loop_entry(S->t[0]) ? 1 : 0)) \
	__CPROVER_loop_invariant(S->f[1] == __CPROVER_loop_entry(S->f[1])) \
	__CPROVER_loop_invariant(RXV_UPDATE_LOG_INV) \
	__CPROVER_decreases(inlen)

/* ---- blake2b_final (RFC 7693 3.3: last block: t += remaining bytes, final flag set, zero padding; output = first
   outlen bytes of the little-endian state words) ---- */
#define RXV_FINAL_REJECT(S, outlen) ((outlen) < __CPROVER_old(S->outlen) || __CPROVER_old(S->f[0]) != 0)
int blake2b_final(blake2b_state *S, void *out, size_t outlen)
__CPROVER_requires(__CPROVER_is_fresh(S, sizeof(*S)) && S->buflen <= 128 && S->outlen <= 64)
__CPROVER_requires(outlen > 0 && outlen < RXV_MAX_LEN && __CPROVER_is_fresh(out, outlen) && rxv_po < outlen && rxv_pb < 128)
__CPROVER_assigns(__CPROVER_object_whole(S), __CPROVER_object_whole(out), RXV_LOG_ASSIGNS)
/* rejected: -1, no compression, output untouched */
__CPROVER_ensures(RXV_FINAL_REJECT(S, outlen) ==> (__CPROVER_return_value == -1 && rxv_ncomp == __CPROVER_old(rxv_ncomp)
	&& ((uint8_t*)out)[rxv_po] == __CPROVER_old(((uint8_t*)out)[rxv_po]) && RXV_LOG_UNCHANGED))
/* accepted: exactly one compression, of buf zero-padded, counter advanced by the buffered bytes, last-block flag set */
__CPROVER_ensures(!RXV_FINAL_REJECT(S, outlen) ==> (__CPROVER_return_value == 0 && rxv_ncomp == __CPROVER_old(rxv_ncomp) + 1))
__CPROVER_ensures((!RXV_FINAL_REJECT(S, outlen) && rxv_pk == __CPROVER_old(rxv_ncomp)) ==> (
	rxv_k_t0 == __CPROVER_old(S->t[0]) + __CPROVER_old(S->buflen)
	&& rxv_k_t1 == __CPROVER_old(S->t[1]) + (rxv_k_t0 < __CPROVER_old(S->t[0]) ? 1 : 0)
	&& rxv_k_f0 == ~(uint64_t)0 && rxv_k_f1 == (__CPROVER_old(S->last_node) ? ~(uint64_t)0 : __CPROVER_old(S->f[1]))))
__CPROVER_ensures((!RXV_FINAL_REJECT(S, outlen) && rxv_pk == __CPROVER_old(rxv_ncomp) && RXV_TRACKED(RXV_BUF_OFF + rxv_pb))
	==> rxv_k_byte == (rxv_pb < __CPROVER_old(S->buflen) ? __CPROVER_old(S->buf[rxv_pb % 128]) : 0))
__CPROVER_ensures(rxv_pk != __CPROVER_old(rxv_ncomp) ==> RXV_LOG_UNCHANGED)
/* output: the first S->outlen bytes of the state words in little-endian order, nothing beyond */
__CPROVER_ensures((!RXV_FINAL_REJECT(S, outlen) && RXV_TRACKED(rxv_po)) ==> (rxv_po < __CPROVER_old(S->outlen)
	? ((uint8_t*)out)[rxv_po] == (uint8_t)(S->h[(rxv_po % 64) / 8] >> (8 * (rxv_po % 8)))
	: ((uint8_t*)out)[rxv_po] == __CPROVER_old(((uint8_t*)out)[rxv_po])));

/* ---- initialisation (RFC 7693 2.5 parameter block, 2.6 IV, 3.3 keyed hashing) ---- */
#define RXV_IV0 0x6a09e667f3bcc908ULL
#define RXV_IV1 0xbb67ae8584caa73bULL
#define RXV_IV2 0x3c6ef372fe94f82bULL
#define RXV_IV3 0xa54ff53a5f1d36f1ULL
#define RXV_IV4 0x510e527fade682d1ULL
#define RXV_IV5 0x9b05688c2b3e6c1fULL
#define RXV_IV6 0x1f83d9abfb41bd6bULL
#define RXV_IV7 0x5be0cd19137e2179ULL
/* state right after initialisation with digest length nn and key length kk (sequential mode: fanout = depth = 1) */
#define RXV_STATE_INIT(S, nn, kk) ( \
	S->h[0] == (RXV_IV0 ^ (0x01010000ULL | ((uint64_t)(kk) << 8) | (uint64_t)(nn))) && S->h[1] == RXV_IV1 && S->h[2] == RXV_IV2 \
	&& S->h[3] == RXV_IV3 && S->h[4] == RXV_IV4 && S->h[5] == RXV_IV5 && S->h[6] == RXV_IV6 && S->h[7] == RXV_IV7 \
	&& S->t[0] == 0 && S->t[1] == 0 && S->f[0] == 0 && S->f[1] == 0 && S->outlen == (nn) && S->last_node == 0)

/* little-endian 64-bit word k of the 64-byte parameter block */
#define RXV_PW(P, k) ( (uint64_t)((const uint8_t*)(P))[8*(k)]           | (uint64_t)((const uint8_t*)(P))[8*(k)+1] << 8  \
	| (uint64_t)((const uint8_t*)(P))[8*(k)+2] << 16 | (uint64_t)((const uint8_t*)(P))[8*(k)+3] << 24 \
	| (uint64_t)((const uint8_t*)(P))[8*(k)+4] << 32 | (uint64_t)((const uint8_t*)(P))[8*(k)+5] << 40 \
	| (uint64_t)((const uint8_t*)(P))[8*(k)+6] << 48 | (uint64_t)((const uint8_t*)(P))[8*(k)+7] << 56)
int blake2b_init_param(blake2b_state *S, const blake2b_param *P)
__CPROVER_requires(__CPROVER_is_fresh(S, sizeof(*S)) && __CPROVER_is_fresh(P, sizeof(*P)) && rxv_pb < 128)
__CPROVER_assigns(__CPROVER_object_whole(S))
__CPROVER_ensures(__CPROVER_return_value == 0)
__CPROVER_ensures(S->h[0] == (RXV_IV0 ^ RXV_PW(P, 0)) && S->h[1] == (RXV_IV1 ^ RXV_PW(P, 1)) && S->h[2] == (RXV_IV2 ^ RXV_PW(P, 2))
	&& S->h[3] == (RXV_IV3 ^ RXV_PW(P, 3)) && S->h[4] == (RXV_IV4 ^ RXV_PW(P, 4)) && S->h[5] == (RXV_IV5 ^ RXV_PW(P, 5))
	&& S->h[6] == (RXV_IV6 ^ RXV_PW(P, 6)) && S->h[7] == (RXV_IV7 ^ RXV_PW(P, 7)))
__CPROVER_ensures(S->t[0] == 0 && S->t[1] == 0 && S->f[0] == 0 && S->f[1] == 0 && S->buflen == 0 && S->last_node == 0
	&& S->outlen == P->digest_length && S->buf[rxv_pb] == 0);

int blake2b_init(blake2b_state *S, size_t outlen)
__CPROVER_requires(__CPROVER_is_fresh(S, sizeof(*S)) && rxv_pb < 128)
__CPROVER_assigns(__CPROVER_object_whole(S))
__CPROVER_ensures((outlen == 0 || outlen > 64) ==> (__CPROVER_return_value == -1 && S->f[0] != 0))
__CPROVER_ensures((outlen >= 1 && outlen <= 64) ==> (__CPROVER_return_value == 0 && RXV_STATE_INIT(S, outlen, 0) && S->buflen == 0));

#define RXV_KEY_BAD(key, keylen) ((key) == 0 || (keylen) == 0 || (keylen) > 64)
int blake2b_init_key(blake2b_state *S, size_t outlen, const void *key, size_t keylen)
__CPROVER_requires(__CPROVER_is_fresh(S, sizeof(*S)))
__CPROVER_requires(key == 0 || (keylen >= 1 && keylen <= 64 && __CPROVER_is_fresh(key, keylen)) || keylen == 0 || keylen > 64)
__CPROVER_requires(rxv_pb < 128)
__CPROVER_assigns(__CPROVER_object_whole(S), RXV_LOG_ASSIGNS)
__CPROVER_ensures((outlen == 0 || outlen > 64 || RXV_KEY_BAD(key, keylen)) ==> (__CPROVER_return_value == -1 && S->f[0] != 0))
/* keyed: the key, zero-padded to one block, is the first block of the stream (still buffered) */
__CPROVER_ensures(!(outlen == 0 || outlen > 64 || RXV_KEY_BAD(key, keylen)) ==> (__CPROVER_return_value == 0
	&& RXV_STATE_INIT(S, outlen, keylen) && S->buflen == 128 && rxv_ncomp == __CPROVER_old(rxv_ncomp) && RXV_LOG_UNCHANGED))
__CPROVER_ensures((!(outlen == 0 || outlen > 64 || RXV_KEY_BAD(key, keylen)) && rxv_mc_off == RXV_BUF_OFF + rxv_pb && rxv_mc_off2 == rxv_pb && rxv_px == rxv_pb)
	==> S->buf[rxv_pb] == (rxv_pb < keylen ? ((const uint8_t*)key)[rxv_pb] : 0));

#endif
