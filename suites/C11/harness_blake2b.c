/* one harness file, one entry per enforced contract; the real blake2b.c (woven copy) is #included so that the static
   compression function can be replaced by its contract */
#include "contracts_blake2b.h"
#include "blake2b_woven.c"
uint64_t nondet_u64(void); unsigned nondet_unsigned(void); size_t nondet_size(void); int nondet_int(void);
static void probes(void) {
	rxv_px = nondet_u64(); rxv_pb = nondet_unsigned(); rxv_pk = nondet_u64(); rxv_ncomp = nondet_u64(); rxv_po = nondet_size();
	rxv_mc_off = nondet_size(); rxv_mc_off2 = nondet_size();
}
void h_update(void) { blake2b_state* S; const void* in; size_t inlen = nondet_size(); probes(); blake2b_update(S, in, inlen); __CPROVER_assert(0, "canary"); }
void h_final(void) { blake2b_state* S; void* out; size_t outlen = nondet_size(); probes(); blake2b_final(S, out, outlen); __CPROVER_assert(0, "canary"); }
void h_init(void) { blake2b_state* S; size_t outlen = nondet_size(); probes(); blake2b_init(S, outlen); __CPROVER_assert(0, "canary"); }
void h_init_param(void) { blake2b_state* S; const blake2b_param* P; probes(); blake2b_init_param(S, P); __CPROVER_assert(0, "canary"); }
void h_init_key(void) { blake2b_state* S; const void* key; size_t outlen = nondet_size(), keylen = nondet_size(); probes();
	blake2b_init_key(S, outlen, key, keylen); __CPROVER_assert(0, "canary"); }
