#include <stdint.h>
#include <stddef.h>
unsigned rxv_pb; uint64_t rxv_pk, rxv_px, rxv_ncomp, rxv_k_t0, rxv_k_t1, rxv_k_f0, rxv_k_f1; uint8_t rxv_k_byte; size_t rxv_po;
