/* C11-5: randomx_calculate_commitment (extracted from src/randomx.cpp) == Blake2b-256 over input || hash, stated on the
   stream-level contracts: init(32); the absorbed stream is exactly input followed by the 32 hash bytes; final writes 32
   bytes to com_out.  Reads exactly inputSize and 32 bytes (r_ok obligations of the update contract). */
#include "rx.c"
size_t nondet_size(void); uint64_t nondet_u64(void);
void h_commitment(void) {
	size_t inputSize = nondet_size();
	__CPROVER_assume(inputSize < ((size_t)1 << 54));
	uint8_t* input = inputSize ? malloc(inputSize) : (uint8_t*)0;
	__CPROVER_assume(inputSize == 0 || input != 0);
	uint8_t hash_in[32], com_out[32];
	for (int k = 0; k < 32; k++) hash_in[k] = (uint8_t)nondet_u64();
	rxv_s_state = 0; rxv_s_probe = nondet_u64();
	randomx_calculate_commitment(input, inputSize, hash_in, com_out);
	__CPROVER_assert(rxv_s_state == 2 && rxv_s_outlen == 32, "Blake2b-256: initialised with digest length 32 and finalised");
	__CPROVER_assert(rxv_s_len == inputSize + 32, "stream length = |input| + 32");
	__CPROVER_assert(!(rxv_s_probe < inputSize) || rxv_s_byte == input[rxv_s_probe], "stream starts with the input bytes");
	__CPROVER_assert(!(rxv_s_probe >= inputSize && rxv_s_probe < inputSize + 32) || rxv_s_byte == hash_in[rxv_s_probe - inputSize],
		"stream continues with the 32 hash bytes");
	__CPROVER_assert(rxv_s_out == com_out && rxv_s_final_outlen == 32, "digest written to com_out (32 bytes)");
	__CPROVER_assert(0, "canary");
}
