/* Contracts of the helpers defined in src/instructions_portable.cpp, used (replaced) by callers' proofs.
   They are enforced against the real portable definitions in suite C17 (mulh/smulh/rotr/rotl) and C13 (rounding). */
#ifndef RXV_CONTRACTS_PORTABLE_H
#define RXV_CONTRACTS_PORTABLE_H
#include "spec_isa.h"

/* UF: high 64 bits of the unsigned / signed 128-bit product */
uint64_t __CPROVER_uninterpreted_mulh(uint64_t, uint64_t);
int64_t __CPROVER_uninterpreted_smulh(int64_t, int64_t);

uint64_t mulh(uint64_t a, uint64_t b)
__CPROVER_ensures(__CPROVER_return_value == __CPROVER_uninterpreted_mulh(a, b))
__CPROVER_assigns();

int64_t smulh(int64_t a, int64_t b)
__CPROVER_ensures(__CPROVER_return_value == __CPROVER_uninterpreted_smulh(a, b))
__CPROVER_assigns();

uint64_t rotr(uint64_t a, unsigned int b)
__CPROVER_requires(b < 64)
__CPROVER_ensures(__CPROVER_return_value == spec_rotr64(a, b))
__CPROVER_assigns();

uint64_t rotl(uint64_t a, unsigned int b)
__CPROVER_requires(b < 64)
__CPROVER_ensures(__CPROVER_return_value == spec_rotl64(a, b))
__CPROVER_assigns();

/* ghost rounding-mode register (fprc); the FP environment itself is modelled by __CPROVER_rounding_mode */
extern unsigned rxv_fprc;
void rx_set_rounding_mode(uint32_t mode)
__CPROVER_requires(mode < 4)
__CPROVER_ensures(rxv_fprc == mode)
__CPROVER_assigns(rxv_fprc);


/* ---- lane-wise double operations of the portable rx_vec_f128 (intrin_portable.h) ----
   UF: IEEE-754 binary64 operation under rounding mode rm (the abstract operation both the implementation and the
   specification side use in instruction-level proofs; the portable bodies are enforced against lane-wise
   +,-,*,/,sqrt in suite C17). */
#ifdef RXV_FP_CONTRACTS
double __CPROVER_uninterpreted_fadd(double, double, int);
double __CPROVER_uninterpreted_fsub(double, double, int);
double __CPROVER_uninterpreted_fmul(double, double, int);
double __CPROVER_uninterpreted_fdiv(double, double, int);
double __CPROVER_uninterpreted_fsqrt(double, int);
#define RXV_FP_BIN_CONTRACT(fn, uf) \
rx_vec_f128 fn(rx_vec_f128 a, rx_vec_f128 b) \
__CPROVER_ensures(spec_d2u(__CPROVER_return_value.lo) == spec_d2u(uf(a.lo, b.lo, __CPROVER_rounding_mode))) \
__CPROVER_ensures(spec_d2u(__CPROVER_return_value.hi) == spec_d2u(uf(a.hi, b.hi, __CPROVER_rounding_mode))) \
__CPROVER_assigns();
RXV_FP_BIN_CONTRACT(rx_add_vec_f128, __CPROVER_uninterpreted_fadd)
RXV_FP_BIN_CONTRACT(rx_sub_vec_f128, __CPROVER_uninterpreted_fsub)
RXV_FP_BIN_CONTRACT(rx_mul_vec_f128, __CPROVER_uninterpreted_fmul)
RXV_FP_BIN_CONTRACT(rx_div_vec_f128, __CPROVER_uninterpreted_fdiv)
rx_vec_f128 rx_sqrt_vec_f128(rx_vec_f128 a)
__CPROVER_ensures(spec_d2u(__CPROVER_return_value.lo) == spec_d2u(__CPROVER_uninterpreted_fsqrt(a.lo, __CPROVER_rounding_mode)))
__CPROVER_ensures(spec_d2u(__CPROVER_return_value.hi) == spec_d2u(__CPROVER_uninterpreted_fsqrt(a.hi, __CPROVER_rounding_mode)))
__CPROVER_assigns();
#endif

#endif
