rx_vec_i128 rxv_hard_aesenc(rx_vec_i128 in, rx_vec_i128 key);
rx_vec_i128 rxv_hard_aesdec(rx_vec_i128 in, rx_vec_i128 key);
