/* Contracts for the bytecode decoder of src/bytecode_machine.cpp (extracted to C on every run).
   Included between the extracted type section and the extracted function bodies (RXV_CONTRACTS_H).
   Postconditions are taken from doc/specs.md ch. 5 through spec_isa.h; they say that the decoded
   InstructionByteCode *denotes* the specified instruction for the register file it is bound to. */
#ifndef RXV_CONTRACTS_BM_H
#define RXV_CONTRACTS_BM_H
#include "spec_isa.h"

#ifndef RXV_NATIVE
/* UF: value returned by randomx_reciprocal (reciprocal.c); tied to floor(2^x/d) by suite C18 */
uint64_t __CPROVER_uninterpreted_rcp(uint32_t);

uint64_t randomx_reciprocal(uint32_t divisor)
__CPROVER_requires(divisor != 0 && (divisor & (divisor - 1)) != 0)
__CPROVER_ensures(__CPROVER_return_value == __CPROVER_uninterpreted_rcp(divisor))
__CPROVER_assigns();
#endif

static inline int rxv_sel8(int i, int v0, int v1, int v2, int v3, int v4, int v5, int v6, int v7) {
	switch (i & 7) { case 0: return v0; case 1: return v1; case 2: return v2; case 3: return v3;
	case 4: return v4; case 5: return v5; case 6: return v6; default: return v7; }
}

/* the source operand is the constant v (an immediate held in the bytecode itself, or the shared zero) */
static inline bool rxv_src_const(const InstructionByteCode* ibc, uint64_t v) {
	return (ibc->isrc == &ibc->imm && ibc->imm == v) || (v == 0 && ibc->isrc == &BytecodeMachine_zero);
}

/* *ibc, bound to register file *n, denotes the instruction word (opcode,dst,src,mod,imm32); lw = last writer of dst */
static inline bool rxv_denotes(const InstructionByteCode* ibc, const NativeRegisterFile* n,
		uint8_t opcode, uint8_t dst, uint8_t src, uint8_t mod, uint32_t imm32, int lw) {
	int k = spec_kind_of(opcode);
	int d = dst & 7, s = src & 7, df = dst & 3, sf = src & 3;
	uint64_t simm = spec_sext32(imm32);
	uint32_t rmask = spec_read_mask(dst, src, mod, true);
	uint32_t fmask = spec_read_mask(dst, src, mod, false);
	switch (k) {
	case S_IADD_RS:
		return ibc->type == InstructionType_IADD_RS && ibc->idst == &n->r[d] && ibc->isrc == &n->r[s]
			&& ibc->shift == spec_mod_shift(mod) && ibc->imm == (d == 5 ? simm : 0);
	case S_IADD_M: case S_ISUB_M: case S_IMUL_M: case S_IMULH_M: case S_ISMULH_M: case S_IXOR_M:
		return ibc->type == (k == S_IADD_M ? InstructionType_IADD_M : k == S_ISUB_M ? InstructionType_ISUB_M :
				k == S_IMUL_M ? InstructionType_IMUL_M : k == S_IMULH_M ? InstructionType_IMULH_M :
				k == S_ISMULH_M ? InstructionType_ISMULH_M : InstructionType_IXOR_M)
			&& ibc->idst == &n->r[d] && ibc->imm == simm && ibc->memMask == rmask
			&& (d != s ? ibc->isrc == &n->r[s] : ibc->isrc == &BytecodeMachine_zero);
	case S_ISUB_R: case S_IMUL_R: case S_IXOR_R:
		return ibc->type == (k == S_ISUB_R ? InstructionType_ISUB_R : k == S_IMUL_R ? InstructionType_IMUL_R : InstructionType_IXOR_R)
			&& ibc->idst == &n->r[d] && (d != s ? ibc->isrc == &n->r[s] : rxv_src_const(ibc, simm));
	case S_IROR_R: case S_IROL_R: /* count is masked to 6 bits: sign- and zero-extension are both conformant */
		return ibc->type == (k == S_IROR_R ? InstructionType_IROR_R : InstructionType_IROL_R)
			&& ibc->idst == &n->r[d]
			&& (d != s ? ibc->isrc == &n->r[s] : (ibc->isrc == &ibc->imm && (ibc->imm & 63) == (imm32 & 63)));
	case S_IMULH_R: case S_ISMULH_R:
		return ibc->type == (k == S_IMULH_R ? InstructionType_IMULH_R : InstructionType_ISMULH_R)
			&& ibc->idst == &n->r[d] && ibc->isrc == &n->r[s];
	case S_IMUL_RCP:
		if (spec_zero_or_pow2(imm32)) return ibc->type == InstructionType_NOP;
		return ibc->type == InstructionType_IMUL_R && ibc->idst == &n->r[d]
			&& rxv_src_const(ibc, __CPROVER_uninterpreted_rcp(imm32));
	case S_INEG_R:
		return ibc->type == InstructionType_INEG_R && ibc->idst == &n->r[d];
	case S_ISWAP_R:
		if (d == s) return ibc->type == InstructionType_NOP;
		return ibc->type == InstructionType_ISWAP_R && ibc->idst == &n->r[d] && ibc->isrc == &n->r[s];
	case S_FSWAP_R:
		return ibc->type == InstructionType_FSWAP_R && ibc->fdst == (d < 4 ? &n->f[d] : &n->e[d - 4]);
	case S_FADD_R: case S_FSUB_R:
		return ibc->type == (k == S_FADD_R ? InstructionType_FADD_R : InstructionType_FSUB_R)
			&& ibc->fdst == &n->f[df] && ibc->fsrc == &n->a[sf];
	case S_FADD_M: case S_FSUB_M:
		return ibc->type == (k == S_FADD_M ? InstructionType_FADD_M : InstructionType_FSUB_M)
			&& ibc->fdst == &n->f[df] && ibc->isrc == &n->r[s] && ibc->memMask == fmask && ibc->imm == simm;
	case S_FSCAL_R:
		return ibc->type == InstructionType_FSCAL_R && ibc->fdst == &n->f[df];
	case S_FMUL_R:
		return ibc->type == InstructionType_FMUL_R && ibc->fdst == &n->e[df] && ibc->fsrc == &n->a[sf];
	case S_FDIV_M:
		return ibc->type == InstructionType_FDIV_M && ibc->fdst == &n->e[df] && ibc->isrc == &n->r[s]
			&& ibc->memMask == fmask && ibc->imm == simm;
	case S_FSQRT_R:
		return ibc->type == InstructionType_FSQRT_R && ibc->fdst == &n->e[df];
	case S_CBRANCH:
		return ibc->type == InstructionType_CBRANCH && ibc->idst == &n->r[d] && ibc->target == lw
			&& ibc->imm == spec_cimm(imm32, mod) && ibc->memMask == (uint32_t)spec_cbranch_mask(mod);
	case S_CFROUND:
		/* the executor rotates by ibc->imm unmasked, so the decoder must deliver the count already reduced to 0..63 */
		return ibc->type == InstructionType_CFROUND && ibc->isrc == &n->r[s] && ibc->imm == (imm32 & 63);
	case S_ISTORE:
		return ibc->type == InstructionType_ISTORE && ibc->idst == &n->r[d] && ibc->isrc == &n->r[s]
			&& ibc->imm == simm && ibc->memMask == spec_write_mask(mod);
	default:
		return ibc->type == InstructionType_NOP;
	}
}

#ifndef RXV_NATIVE
#define RXV_RU_POST(R) (self->registerUsage[R] == \
	(spec_modifies(spec_kind_of(instr->opcode), instr->dst, instr->src, instr->imm32, R) ? i : __CPROVER_old(self->registerUsage[R])))

#define RXV_RU_POST_X(R) (self->registerUsage[R] == \
	(SPEC_MODIFIES_X(instr->opcode, instr->dst, instr->src, instr->imm32, R) ? i : __CPROVER_old(self->registerUsage[R])))
#define RXV_RU_PRE(R) (-1 <= self->registerUsage[R] && self->registerUsage[R] < i)

void BytecodeMachine_compileInstruction(struct BytecodeMachine* self, Instruction* instr, int i, InstructionByteCode* ibc)
__CPROVER_requires(__CPROVER_is_fresh(self, sizeof(*self)))
__CPROVER_requires(__CPROVER_is_fresh(self->nreg, sizeof(NativeRegisterFile)))
__CPROVER_requires(__CPROVER_is_fresh(instr, sizeof(*instr)))
__CPROVER_requires(__CPROVER_is_fresh(ibc, sizeof(*ibc)))
__CPROVER_requires(0 <= i && i < 32768)
/* representation invariant of the compile loop (established by beginCompilation, preserved by RXV_RU_POST):
   every last-writer entry is -1 or the index of an earlier instruction */
__CPROVER_requires(RXV_RU_PRE(0) && RXV_RU_PRE(1) && RXV_RU_PRE(2) && RXV_RU_PRE(3))
__CPROVER_requires(RXV_RU_PRE(4) && RXV_RU_PRE(5) && RXV_RU_PRE(6) && RXV_RU_PRE(7))
__CPROVER_assigns(*ibc, __CPROVER_object_whole(self->registerUsage))
__CPROVER_ensures(rxv_denotes(ibc, self->nreg, instr->opcode, instr->dst, instr->src, instr->mod, instr->imm32,
	rxv_sel8(instr->dst, __CPROVER_old(self->registerUsage[0]), __CPROVER_old(self->registerUsage[1]),
		__CPROVER_old(self->registerUsage[2]), __CPROVER_old(self->registerUsage[3]),
		__CPROVER_old(self->registerUsage[4]), __CPROVER_old(self->registerUsage[5]),
		__CPROVER_old(self->registerUsage[6]), __CPROVER_old(self->registerUsage[7]))))
__CPROVER_ensures(RXV_RU_POST(0) && RXV_RU_POST(1) && RXV_RU_POST(2) && RXV_RU_POST(3))
__CPROVER_ensures(RXV_RU_POST(4) && RXV_RU_POST(5) && RXV_RU_POST(6) && RXV_RU_POST(7))
__CPROVER_ensures(self->nreg == __CPROVER_old(self->nreg));

/* Slim contract of the same function, carrying only what the structural argument of C07 needs (last-writer table and
   branch target).  It is enforced on the real body in its own obligation and used in place of the full contract where
   the `denotes` clause would only slow the caller's proof down. */
void rxv_compileInstruction_lw(struct BytecodeMachine* self, Instruction* instr, int i, InstructionByteCode* ibc)
__CPROVER_requires(__CPROVER_is_fresh(self, sizeof(*self)))
__CPROVER_requires(__CPROVER_is_fresh(self->nreg, sizeof(NativeRegisterFile)))
__CPROVER_requires(__CPROVER_is_fresh(instr, sizeof(*instr)))
__CPROVER_requires(__CPROVER_is_fresh(ibc, sizeof(*ibc)))
__CPROVER_requires(0 <= i && i < 32768)
__CPROVER_requires(RXV_RU_PRE(0) && RXV_RU_PRE(1) && RXV_RU_PRE(2) && RXV_RU_PRE(3))
__CPROVER_requires(RXV_RU_PRE(4) && RXV_RU_PRE(5) && RXV_RU_PRE(6) && RXV_RU_PRE(7))
__CPROVER_assigns(*ibc, __CPROVER_object_whole(self->registerUsage))
__CPROVER_ensures(!SPEC_IS_CBRANCH_X(instr->opcode) || ibc->target ==
	rxv_sel8(instr->dst, __CPROVER_old(self->registerUsage[0]), __CPROVER_old(self->registerUsage[1]),
		__CPROVER_old(self->registerUsage[2]), __CPROVER_old(self->registerUsage[3]),
		__CPROVER_old(self->registerUsage[4]), __CPROVER_old(self->registerUsage[5]),
		__CPROVER_old(self->registerUsage[6]), __CPROVER_old(self->registerUsage[7])))
__CPROVER_ensures(RXV_RU_POST_X(0) && RXV_RU_POST_X(1) && RXV_RU_POST_X(2) && RXV_RU_POST_X(3))
__CPROVER_ensures(RXV_RU_POST_X(4) && RXV_RU_POST_X(5) && RXV_RU_POST_X(6) && RXV_RU_POST_X(7))
__CPROVER_ensures(self->nreg == __CPROVER_old(self->nreg));
#endif /* RXV_NATIVE */

#endif
