/* FIPS-197 single round and inverse round as the x86 AESENC / AESDEC instructions define them (Intel SDM):
     AESENC(state, key) = MixColumns(SubBytes(ShiftRows(state))) xor key
     AESDEC(state, key) = InvMixColumns(InvSubBytes(InvShiftRows(state))) xor key
   State bytes s[0..15], byte i = row (i % 4), column (i / 4) (FIPS-197 3.4, little-endian 128-bit register).
   TRUSTED: oracle written from FIPS-197 (S-box from GF(2^8) inversion + affine map, computed, not tabulated). */
#ifndef RXV_SPEC_AES_H
#define RXV_SPEC_AES_H
#include <stdint.h>
static inline uint8_t aes_xtime(uint8_t x) { return (uint8_t)((x << 1) ^ ((x & 0x80) ? 0x1b : 0)); }
static inline uint8_t aes_gmul(uint8_t a, uint8_t b) { uint8_t p = 0; for (int i = 0; i < 8; i++) { if (b & 1) p ^= a; a = aes_xtime(a); b >>= 1; } return p; }
/* multiplicative inverse in GF(2^8) by exponentiation x^254 (0 -> 0) */
static inline uint8_t aes_inv(uint8_t x) { uint8_t r = 1, b = x; for (int e = 254; e; e >>= 1) { if (e & 1) r = aes_gmul(r, b); b = aes_gmul(b, b); } return x ? r : 0; }
static inline uint8_t aes_rotl8(uint8_t x, int n) { return (uint8_t)((x << n) | (x >> (8 - n))); }
static inline uint8_t aes_sbox(uint8_t x) { uint8_t b = aes_inv(x); return (uint8_t)(b ^ aes_rotl8(b, 1) ^ aes_rotl8(b, 2) ^ aes_rotl8(b, 3) ^ aes_rotl8(b, 4) ^ 0x63); }
static inline uint8_t aes_inv_sbox_affine(uint8_t y) { return (uint8_t)(aes_rotl8(y, 1) ^ aes_rotl8(y, 3) ^ aes_rotl8(y, 6) ^ 0x05); }
static inline uint8_t aes_isbox(uint8_t y) { return aes_inv(aes_inv_sbox_affine(y)); }

/* table-driven forms of the same functions, for symbolic proofs (tables are filled from the functions above by a
   concrete loop in the harness and checked there) */
typedef struct { uint8_t s[256], is[256]; } aes_tables;
static inline void aes_fill_tables(aes_tables* t) { for (int i = 0; i < 256; i++) { t->s[i] = aes_sbox((uint8_t)i); t->is[i] = aes_isbox((uint8_t)i); } }

/* one output column c (4 bytes) of AESENC: input bytes after ShiftRows: row r of column c comes from column (c + r) % 4 */
static inline void aes_enc_column(const aes_tables* t, const uint8_t in[16], const uint8_t key[16], int c, uint8_t out[4]) {
	uint8_t a[4];
	for (int r = 0; r < 4; r++) a[r] = t->s[in[4 * ((c + r) % 4) + r]];
	out[0] = (uint8_t)(aes_xtime(a[0]) ^ (aes_xtime(a[1]) ^ a[1]) ^ a[2] ^ a[3]) ^ key[4 * c + 0];
	out[1] = (uint8_t)(a[0] ^ aes_xtime(a[1]) ^ (aes_xtime(a[2]) ^ a[2]) ^ a[3]) ^ key[4 * c + 1];
	out[2] = (uint8_t)(a[0] ^ a[1] ^ aes_xtime(a[2]) ^ (aes_xtime(a[3]) ^ a[3])) ^ key[4 * c + 2];
	out[3] = (uint8_t)((aes_xtime(a[0]) ^ a[0]) ^ a[1] ^ a[2] ^ aes_xtime(a[3])) ^ key[4 * c + 3];
}
/* AESDEC: InvShiftRows: row r of column c comes from column (c - r) mod 4; InvSubBytes; InvMixColumns (14, 11, 13, 9) */
static inline uint8_t aes_m9(uint8_t x) { return (uint8_t)(aes_xtime(aes_xtime(aes_xtime(x))) ^ x); }
static inline uint8_t aes_m11(uint8_t x) { return (uint8_t)(aes_xtime(aes_xtime(aes_xtime(x))) ^ aes_xtime(x) ^ x); }
static inline uint8_t aes_m13(uint8_t x) { return (uint8_t)(aes_xtime(aes_xtime(aes_xtime(x))) ^ aes_xtime(aes_xtime(x)) ^ x); }
static inline uint8_t aes_m14(uint8_t x) { return (uint8_t)(aes_xtime(aes_xtime(aes_xtime(x))) ^ aes_xtime(aes_xtime(x)) ^ aes_xtime(x)); }
static inline void aes_dec_column(const aes_tables* t, const uint8_t in[16], const uint8_t key[16], int c, uint8_t out[4]) {
	uint8_t a[4];
	for (int r = 0; r < 4; r++) a[r] = t->is[in[4 * ((c + 4 - r) % 4) + r]];
	out[0] = (uint8_t)(aes_m14(a[0]) ^ aes_m11(a[1]) ^ aes_m13(a[2]) ^ aes_m9(a[3])) ^ key[4 * c + 0];
	out[1] = (uint8_t)(aes_m9(a[0]) ^ aes_m14(a[1]) ^ aes_m11(a[2]) ^ aes_m13(a[3])) ^ key[4 * c + 1];
	out[2] = (uint8_t)(aes_m13(a[0]) ^ aes_m9(a[1]) ^ aes_m14(a[2]) ^ aes_m11(a[3])) ^ key[4 * c + 2];
	out[3] = (uint8_t)(aes_m11(a[0]) ^ aes_m13(a[1]) ^ aes_m9(a[2]) ^ aes_m14(a[3])) ^ key[4 * c + 3];
}
#endif
