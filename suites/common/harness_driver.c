/* Hash driver (src/randomx.cpp: randomx_calculate_hash, _first, _next, _last; extracted, SSE control-word path) against
   - C13: ghost MXCSR: the single-call hash restores the caller's control/status word exactly; every entry point resets
     the control word to the RandomX default before the first program runs; hashing steps other than programs do not
     depend on or change it;
   - C02-3 / C03-2: the sequence of steps is the one chapter 2 of doc/specs.md prescribes, and a first/next/last batch
     performs, per hash, the same steps on the same data as the single call.
   Virtual calls on the VM and the Blake2b one-shot are STUBs that check their preconditions and append to a ghost log. */
#include "rx.c"
#include <stdint.h>
/* ---- ghost MXCSR (TRUSTED: stmxcsr/ldmxcsr read/write exactly this word) ---- */
unsigned rxv_mxcsr;
unsigned __builtin_ia32_stmxcsr(void) { return rxv_mxcsr; }
void __builtin_ia32_ldmxcsr(unsigned x) { rxv_mxcsr = x; }
#define RXV_MXCSR_DEFAULT 0x9FC0u     /* flush-to-zero, denormals-are-zero, all exceptions masked, round to nearest */
/* ---- ghost log ---- */
enum { EV_HASH512_INPUT = 1, EV_FILL_SCRATCHPAD, EV_RESET_ROUNDING, EV_RUN_PROGRAM, EV_HASH512_REGFILE, EV_FINAL_RESULT, EV_HASH_AND_FILL };
int rxv_ev[64], rxv_nev, rxv_runs;
const void* rxv_ev_arg[64];
static void ev(int e, const void* a) { __CPROVER_assert(rxv_nev < 64, "log capacity"); rxv_ev[rxv_nev] = e; rxv_ev_arg[rxv_nev] = a; rxv_nev++; }
static randomx_vm* the_machine; static const void* the_input; static size_t the_input_size; static void* the_output;
static const void* the_next_input; static size_t the_next_size;

int randomx_blake2b(void *out, size_t outlen, const void *in, size_t inlen, const void *key, size_t keylen) {
	__CPROVER_assert(outlen == 64 && key == 0 && keylen == 0, "Hash512: unkeyed Blake2b with 64-byte output");
	__CPROVER_assert(__CPROVER_w_ok(out, 64), "Hash512 output buffer");
	if (in == (const void*)&the_machine->reg) { __CPROVER_assert(inlen == 256, "Hash512 of the whole 256-byte register file"); ev(EV_HASH512_REGFILE, out); }
	else { __CPROVER_assert((in == the_input && inlen == the_input_size) || (in == the_next_input && inlen == the_next_size), "Hash512 of exactly the caller's input bytes"); ev(EV_HASH512_INPUT, in); }
	__CPROVER_havoc_slice(out, 64);
	return 0;
}
void randomx_vm_initScratchpad(randomx_vm* m, void* seed) { __CPROVER_assert(m == the_machine, "vm"); ev(EV_FILL_SCRATCHPAD, seed); }
void randomx_vm_run(randomx_vm* m, void* seed) {
	__CPROVER_assert(m == the_machine, "vm");
	/* C13: a program starts under the RandomX control word (any rounding mode); the FIRST program of a hash under the default */
	__CPROVER_assert((rxv_mxcsr & ~0x6000u) == RXV_MXCSR_DEFAULT, "program runs with FTZ, DAZ and all exceptions masked (caller's settings do not leak in)");
	__CPROVER_assert(rxv_runs != 0 || rxv_mxcsr == RXV_MXCSR_DEFAULT, "the first program of a hash starts in round-to-nearest");
	rxv_runs++;
	ev(EV_RUN_PROGRAM, seed);
	unsigned mode; __CPROVER_assume(mode < 4);
	rxv_mxcsr = RXV_MXCSR_DEFAULT | (mode << 13);      /* CFROUND may leave any rounding mode (contract of rx_set_rounding_mode) */
}
void randomx_vm_getFinalResult(randomx_vm* m, void* out, size_t outSize) { __CPROVER_assert(m == the_machine && outSize == 32, "32-byte result"); ev(EV_FINAL_RESULT, out); }
void randomx_vm_hashAndFill(randomx_vm* m, void* out, size_t outSize, uint64_t* fill_state) { __CPROVER_assert(m == the_machine && outSize == 32, "32-byte result"); ev(EV_HASH_AND_FILL, out); rxv_ev_arg[rxv_nev - 1] = fill_state; __CPROVER_assert(out == the_output, "result written to the caller's buffer"); }
/* contract of randomx_vm::resetRoundingMode (enforced on the real body in obligation reset_rounding_mode_contract) */
void randomx_vm_resetRoundingMode(randomx_vm* m) { __CPROVER_assert(m == the_machine, "vm"); rxv_mxcsr = RXV_MXCSR_DEFAULT; ev(EV_RESET_ROUNDING, 0); }

unsigned nondet_unsigned(void); size_t nondet_size(void);
static struct randomx_vm vm_obj;
static void setup(void) { the_machine = &vm_obj; rxv_nev = 0; rxv_runs = 0; rxv_mxcsr = nondet_unsigned(); the_input_size = nondet_size(); static char in0[1]; the_input = in0; static char out0[32]; the_output = out0; }

/* expected step sequence of one hash after the scratchpad has been filled (spec ch. 2, steps 3-13): reset, then 8
   programs seeded by the running 64-byte seed, the first 7 each followed by Hash512(RegisterFile) into the seed */
static int check_programs(int k, const void* seed) {
	__CPROVER_assert(rxv_ev[k] == EV_RESET_ROUNDING, "rounding mode reset before the first program"); k++;
	for (int p = 0; p < 8; p++) {
		__CPROVER_assert(rxv_ev[k] == EV_RUN_PROGRAM && rxv_ev_arg[k] == seed, "program seeded by the current 64-byte seed"); k++;
		if (p < 7) { __CPROVER_assert(rxv_ev[k] == EV_HASH512_REGFILE && rxv_ev_arg[k] == seed, "seed = Hash512(RegisterFile) between programs"); k++; }
	}
	return k;
}
void h_single(void) {
	setup();
	const unsigned entry = rxv_mxcsr;
	randomx_calculate_hash(the_machine, the_input, the_input_size, the_output);
	__CPROVER_assert(rxv_mxcsr == entry, "C13: the caller's floating-point control and status word is restored exactly");
	const void* seed = rxv_ev_arg[1];
	__CPROVER_assert(rxv_ev[0] == EV_HASH512_INPUT && rxv_ev_arg[0] == the_input, "step 1: seed = Hash512(input)");
	__CPROVER_assert(rxv_ev[1] == EV_FILL_SCRATCHPAD, "step 2: scratchpad filled from the seed");
	int k = check_programs(2, seed);
	__CPROVER_assert(rxv_ev[k] == EV_FINAL_RESULT && rxv_ev_arg[k] == the_output && rxv_nev == k + 1, "final: fingerprint + Hash256 into the caller's 32-byte buffer");
	__CPROVER_assert(0, "canary");
}
void h_batch(void) {
	setup();
	static char in1[1]; the_next_input = in1; the_next_size = nondet_size();
	randomx_calculate_hash_first(the_machine, the_input, the_input_size);
	const void* seed = the_machine->tempHash;
	__CPROVER_assert(rxv_nev == 2 && rxv_ev[0] == EV_HASH512_INPUT && rxv_ev_arg[0] == the_input && rxv_ev[1] == EV_FILL_SCRATCHPAD && rxv_ev_arg[1] == seed,
		"first: seed = Hash512(input 0), scratchpad filled from it; no program runs yet");
	rxv_mxcsr = nondet_unsigned();      /* the caller may do anything between the calls */
	randomx_calculate_hash_next(the_machine, the_next_input, the_next_size, the_output);
	int k = check_programs(2, seed);
	__CPROVER_assert(rxv_ev[k] == EV_HASH512_INPUT && rxv_ev_arg[k] == the_next_input, "next: seed for the following hash = Hash512(input 1)"); k++;
	__CPROVER_assert(rxv_ev[k] == EV_HASH_AND_FILL && rxv_ev_arg[k] == seed && rxv_nev == k + 1, "next: fingerprint of hash 0 and refill from the new seed in one step");
	rxv_mxcsr = nondet_unsigned(); rxv_runs = 0;
	int base = rxv_nev;
	randomx_calculate_hash_last(the_machine, the_output);
	int k2 = check_programs(base, seed);
	__CPROVER_assert(rxv_ev[k2] == EV_FINAL_RESULT && rxv_ev_arg[k2] == the_output && rxv_nev == k2 + 1, "last: final result of hash 1");
	__CPROVER_assert(0, "canary");
}
