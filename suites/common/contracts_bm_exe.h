/* decode contract + executor contracts (for the instruction-level proof) */
#include "contracts_bm.h"
#include "contracts_mem.h"
#include "contracts_exe.h"
