/* x86-64 subset semantics for exactly the instruction forms the RandomX JIT emits for program instructions
   (jit_compiler_x86.cpp h_* emitters), written from the Intel SDM vol. 2 encodings.
   TRUSTED: this decoder/executor is the specification of what the emitted bytes do; bytes it cannot decode are
   reported (fault != 0), never silently skipped.
   Machine state as the JIT's register allocation defines it (comment at the top of jit_compiler_x86.cpp):
     r8..r15 = r0..r7, rsi = scratchpad base (offset 0 here: addresses are scratchpad offsets), rax/rcx/rdx temporaries,
     xmm0-3 = f0-3, xmm4-7 = e0-3, xmm8-11 = a0-3, xmm12 temporary, xmm13 = E 'and' mask, xmm14 = E 'or' mask,
     xmm15 = scale mask, [rsp] = 4-byte scratch slot for ldmxcsr.
   Memory is abstract (X86_LOAD64 / X86_LOAD32 hooks, a store is recorded); arithmetic that the interpreter side also
   abstracts (64-bit products, high products, packed double arithmetic) goes through the same hooks as spec_isa.h. */
#ifndef RXV_SPEC_X86_H
#define RXV_SPEC_X86_H
#include <stdint.h>
#include <stdbool.h>
#include "spec_isa.h"

typedef struct { double lo, hi; } x86_xmm;
typedef struct {
	uint64_t gpr[16];            /* rax rcx rdx rbx rsp rbp rsi rdi r8..r15 */
	x86_xmm xmm[16];
	uint32_t mxcsr;
	uint32_t stack_slot;         /* dword at [rsp] */
	bool zf;
	/* effects */
	bool stored; uint64_t store_addr; uint64_t store_val;
	bool jumped; int32_t jump_rel; int jump_at;      /* taken branch: rel32 and position just after the branch */
	int fault;                   /* 0 = every byte decoded */
} x86_state;

enum { X_RAX = 0, X_RCX = 1, X_RDX = 2, X_RBX = 3, X_RSP = 4, X_RBP = 5, X_RSI = 6, X_RDI = 7 };

#ifndef X86_LOAD64
#define X86_LOAD64(addr) SPEC_LOAD64((const uint8_t*)0, addr)
#define X86_LOAD32(addr) SPEC_LOAD32((const uint8_t*)0, addr)
#endif

static inline uint32_t x86_rd32(const uint8_t* c, int p) { return (uint32_t)c[p] | (uint32_t)c[p + 1] << 8 | (uint32_t)c[p + 2] << 16 | (uint32_t)c[p + 3] << 24; }
static inline uint64_t x86_rd64(const uint8_t* c, int p) { return (uint64_t)x86_rd32(c, p) | (uint64_t)x86_rd32(c, p + 4) << 32; }
static inline uint64_t x86_sx32(uint32_t v) { return spec_sext32(v); }

/* effective address of a ModRM memory operand (mod != 3); *len = bytes consumed after the ModRM byte.
   rex_x / rex_b extend SIB.index / base (or ModRM.rm).  Only the forms the JIT uses; others set fault. */
static inline uint64_t x86_ea(x86_state* s, const uint8_t* c, int p, uint8_t modrm, int rex_x, int rex_b, int* len) {
	int mod = modrm >> 6, rm = modrm & 7;
	uint64_t ea = 0; int n = 0;
	if (rm == 4) {                                       /* SIB follows */
		uint8_t sib = c[p]; n = 1;
		int scale = sib >> 6, index = ((sib >> 3) & 7) | (rex_x << 3), base = (sib & 7) | (rex_b << 3);
		if (index != 4) ea += s->gpr[index] << scale;     /* index 100b without REX.X = none */
		if ((sib & 7) == 5 && mod == 0) { s->fault = 10; }   /* disp32 without base: never emitted */
		else ea += s->gpr[base];
	} else {
		if (rm == 5 && mod == 0) s->fault = 11;           /* RIP-relative: never emitted */
		ea = s->gpr[rm | (rex_b << 3)];
	}
	if (mod == 2) { ea += x86_sx32(x86_rd32(c, p + n)); n += 4; }
	else if (mod == 1) { s->fault = 12; }               /* disp8: never emitted */
	*len = n;
	return ea;
}

/* executes the byte sequence c[0..n) ; returns with fault set on anything outside the subset */
static inline void x86_run(x86_state* s, const uint8_t* c, int n) {
	int p = 0;
	s->stored = false; s->jumped = false; s->fault = 0;
	for (int guard = 0; guard < 12 && p < n && !s->fault && !s->jumped; guard++) {
		int rex = 0, pfx66 = 0, pfxf3 = 0;
		if (c[p] == 0x66) { pfx66 = 1; p++; }
		else if (c[p] == 0xf3) { pfxf3 = 1; p++; }
		if ((c[p] & 0xf0) == 0x40) { rex = c[p]; p++; }
		int W = (rex >> 3) & 1, R = (rex >> 2) & 1, X = (rex >> 1) & 1, B = rex & 1;
		uint8_t op = c[p++];
		if (op == 0x90 && !rex && !pfx66 && !pfxf3) continue;                                  /* nop */
		if (op == 0x0f) {
			uint8_t op2 = c[p++];
			uint8_t m = c[p++]; int reg = ((m >> 3) & 7) | (R << 3), rm = (m & 7) | (B << 3);
			if (op2 == 0xaf && W) {                                                           /* imul r64, r/m64 */
				uint64_t v;
				if ((m >> 6) == 3) v = s->gpr[rm]; else { int l; uint64_t ea = x86_ea(s, c, p, m, X, B, &l); p += l; v = X86_LOAD64((uint32_t)ea); }
				s->gpr[reg] = SPEC_MUL64(s->gpr[reg], v);
			} else if (op2 == 0x84 || op2 == 0x85) {                                          /* jz / jnz rel32 */
				p -= 1;                                                                        /* no ModRM */
				int32_t rel = (int32_t)x86_rd32(c, p); p += 4;
				bool take = (op2 == 0x84) ? s->zf : !s->zf;
				if (take) { s->jumped = true; s->jump_rel = rel; s->jump_at = p; }
			} else if (op2 == 0xae && (m >> 3 & 7) == 2 && m == 0x14 && c[p] == 0x24) {      /* ldmxcsr [rsp] */
				p += 1; s->mxcsr = s->stack_slot;
			} else if (pfx66 && (op2 == 0x58 || op2 == 0x5c || op2 == 0x59 || op2 == 0x5e || op2 == 0x51) && (m >> 6) == 3) {
				x86_xmm a = s->xmm[reg], b = s->xmm[rm], r;                                    /* packed double arithmetic, register form */
				if (op2 == 0x58) { r.lo = SPEC_FADD(a.lo, b.lo); r.hi = SPEC_FADD(a.hi, b.hi); }
				else if (op2 == 0x5c) { r.lo = SPEC_FSUB(a.lo, b.lo); r.hi = SPEC_FSUB(a.hi, b.hi); }
				else if (op2 == 0x59) { r.lo = SPEC_FMUL(a.lo, b.lo); r.hi = SPEC_FMUL(a.hi, b.hi); }
				else if (op2 == 0x5e) { r.lo = SPEC_FDIV(a.lo, b.lo); r.hi = SPEC_FDIV(a.hi, b.hi); }
				else { r.lo = SPEC_SQRT(b.lo); r.hi = SPEC_SQRT(b.hi); }
				s->xmm[reg] = r;
			} else if (pfx66 && op2 == 0xc6 && (m >> 6) == 3) {                               /* shufpd xmm, xmm, imm8 */
				uint8_t imm = c[p++]; x86_xmm a = s->xmm[reg], b = s->xmm[rm], r;
				r.lo = (imm & 1) ? a.hi : a.lo; r.hi = (imm & 2) ? b.hi : b.lo;
				s->xmm[reg] = r;
			} else if (!pfx66 && !pfxf3 && (op2 == 0x57 || op2 == 0x54 || op2 == 0x56) && (m >> 6) == 3) {   /* xorps / andps / orps */
				uint64_t al = spec_d2u(s->xmm[reg].lo), ah = spec_d2u(s->xmm[reg].hi), bl = spec_d2u(s->xmm[rm].lo), bh = spec_d2u(s->xmm[rm].hi);
				uint64_t rl = op2 == 0x57 ? (al ^ bl) : op2 == 0x54 ? (al & bl) : (al | bl), rh = op2 == 0x57 ? (ah ^ bh) : op2 == 0x54 ? (ah & bh) : (ah | bh);
				s->xmm[reg].lo = spec_u2d(rl); s->xmm[reg].hi = spec_u2d(rh);
			} else if (pfxf3 && op2 == 0xe6 && (m >> 6) != 3) {                               /* cvtdq2pd xmm, m64 */
				int l; uint64_t ea = x86_ea(s, c, p, m, X, B, &l); p += l;
				spec_f2 v = spec_cvt_f2(X86_LOAD32((uint32_t)ea), X86_LOAD32((uint32_t)ea + 4));
				s->xmm[reg].lo = v.lo; s->xmm[reg].hi = v.hi;
			} else s->fault = 1;
			continue;
		}
		if (op == 0x8d) {                                                                      /* lea */
			uint8_t m = c[p++]; int reg = ((m >> 3) & 7) | (R << 3), l;
			if ((m >> 6) == 3) { s->fault = 2; continue; }
			uint64_t ea = x86_ea(s, c, p, m, X, B, &l); p += l;
			s->gpr[reg] = W ? ea : (uint64_t)(uint32_t)ea;
			continue;
		}
		if (op == 0x25 && !rex) { s->gpr[X_RAX] = (uint64_t)((uint32_t)s->gpr[X_RAX] & x86_rd32(c, p)); p += 4; continue; }      /* and eax, imm32 */
		if (op == 0x0d && !rex) { s->gpr[X_RAX] = (uint64_t)((uint32_t)s->gpr[X_RAX] | x86_rd32(c, p)); p += 4; continue; }      /* or eax, imm32 */
		if (op == 0xa9 && !rex) { s->zf = (((uint32_t)s->gpr[X_RAX] & x86_rd32(c, p)) == 0); p += 4; continue; }                   /* test eax, imm32 */
		if (op == 0x75 && !rex) { int8_t rel = (int8_t)c[p++]; if (!s->zf) { if (rel < 0) s->fault = 3; else p += rel; } continue; }  /* jnz rel8 (forward skip) */
		if (op == 0xb8 && W && !B) { s->gpr[X_RAX] = x86_rd64(c, p); p += 8; continue; }                                            /* mov rax, imm64 */
		if (op == 0x03 || op == 0x2b || op == 0x33 || op == 0x8b || op == 0x87 || op == 0x89) {
			uint8_t m = c[p++]; int reg = ((m >> 3) & 7) | (R << 3), rm = (m & 7) | (B << 3);
			if (op == 0x89) {                                                                  /* mov r/m, r */
				if ((m >> 6) == 3) { s->fault = 4; continue; }
				if (W) { int l; uint64_t ea = x86_ea(s, c, p, m, X, B, &l); p += l; s->stored = true; s->store_addr = ea; s->store_val = s->gpr[reg]; }
				else if (m == 0x04 && c[p] == 0x24) { p += 1; s->stack_slot = (uint32_t)s->gpr[reg]; }   /* mov [rsp], eax */
				else s->fault = 5;
				continue;
			}
			uint64_t v;
			if ((m >> 6) == 3) v = s->gpr[rm]; else { int l; uint64_t ea = x86_ea(s, c, p, m, X, B, &l); p += l; v = X86_LOAD64((uint32_t)ea); }
			if (op == 0x87) { if ((m >> 6) != 3 || !W) { s->fault = 6; continue; } uint64_t t = s->gpr[reg]; s->gpr[reg] = s->gpr[rm]; s->gpr[rm] = t; continue; }
			if (op == 0x8b) { s->gpr[reg] = W ? v : (uint64_t)(uint32_t)v; continue; }
			if (!W) { s->fault = 7; continue; }
			if (op == 0x03) s->gpr[reg] += v; else if (op == 0x2b) s->gpr[reg] -= v; else s->gpr[reg] ^= v;
			continue;
		}
		if (op == 0x81 && W) {                                                                 /* group 1 r/m64, imm32 */
			uint8_t m = c[p++]; int ext = (m >> 3) & 7, rm = (m & 7) | (B << 3);
			if ((m >> 6) != 3) { s->fault = 8; continue; }
			uint64_t imm = x86_sx32(x86_rd32(c, p)); p += 4;
			if (ext == 0) s->gpr[rm] += imm; else if (ext == 5) s->gpr[rm] -= imm; else if (ext == 6) s->gpr[rm] ^= imm; else s->fault = 9;
			continue;
		}
		if (op == 0x81 && !W && !rex) {                                                        /* and ecx, imm32 (81 /4) */
			uint8_t m = c[p++];
			if (m != 0xe1) { s->fault = 13; continue; }
			s->gpr[X_RCX] = (uint64_t)((uint32_t)s->gpr[X_RCX] & x86_rd32(c, p)); p += 4;
			continue;
		}
		if (op == 0x69 && W) {                                                                 /* imul r64, r/m64, imm32 */
			uint8_t m = c[p++]; int reg = ((m >> 3) & 7) | (R << 3), rm = (m & 7) | (B << 3);
			if ((m >> 6) != 3) { s->fault = 14; continue; }
			uint64_t imm = x86_sx32(x86_rd32(c, p)); p += 4;
			s->gpr[reg] = SPEC_MUL64(s->gpr[rm], imm);
			continue;
		}
		if (op == 0xf7 && W) {                                                                 /* group 3 */
			uint8_t m = c[p++]; int ext = (m >> 3) & 7, rm = (m & 7) | (B << 3);
			uint64_t v;
			if ((m >> 6) == 3) v = s->gpr[rm]; else { int l; uint64_t ea = x86_ea(s, c, p, m, X, B, &l); p += l; v = X86_LOAD64((uint32_t)ea); }
			if (ext == 0) { if ((m >> 6) != 3) { s->fault = 15; continue; } uint64_t imm = x86_sx32(x86_rd32(c, p)); p += 4; s->zf = ((v & imm) == 0); }
			else if (ext == 3) { if ((m >> 6) != 3) { s->fault = 16; continue; } s->gpr[rm] = 0 - v; }
			else if (ext == 4) { uint64_t a = s->gpr[X_RAX]; s->gpr[X_RDX] = SPEC_MULH(a, v); s->gpr[X_RAX] = SPEC_MUL64(a, v); }
			else if (ext == 5) { uint64_t a = s->gpr[X_RAX]; s->gpr[X_RDX] = SPEC_SMULH(a, v); s->gpr[X_RAX] = SPEC_MUL64(a, v); }
			else s->fault = 17;
			continue;
		}
		if ((op == 0xd3 || op == 0xc1) && W) {                                                 /* rotate r/m64 by cl / imm8 */
			uint8_t m = c[p++]; int ext = (m >> 3) & 7, rm = (m & 7) | (B << 3);
			if ((m >> 6) != 3 || ext > 1) { s->fault = 18; continue; }
			unsigned cnt = (op == 0xd3) ? (unsigned)(s->gpr[X_RCX] & 63) : (unsigned)(c[p++] & 63);
			s->gpr[rm] = ext == 0 ? spec_rotl64(s->gpr[rm], cnt) : spec_rotr64(s->gpr[rm], cnt);
			continue;
		}
		s->fault = 20;
	}
	if (p != n && !s->jumped && !s->fault) s->fault = 21;    /* trailing bytes or an instruction running past the emitted length */
}
#endif
