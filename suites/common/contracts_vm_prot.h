/* contracts of the compiled-VM methods over the protection ghost (see contracts_jit_prot.h) */
#ifndef RXV_CONTRACTS_VM_PROT_H
#define RXV_CONTRACTS_VM_PROT_H
#include "contracts_jit_prot.h"
#if defined(RXV_CACHE_PROT)
#elif defined(LIGHT)
void CompiledLightVm_setCache(struct randomx_vm* self, randomx_cache* cache)
__CPROVER_requires(__CPROVER_is_fresh(self, sizeof(*self)) && __CPROVER_is_fresh(cache, sizeof(*cache)) && RXV_VM_PRE)
__CPROVER_assigns(__CPROVER_object_whole(self), rxv_prot, rxv_wx_requests)
__CPROVER_ensures(RXV_VM_POST && self->cachePtr == cache && self->mem.memory == cache->memory);

void CompiledLightVm_run(struct randomx_vm* self, void* seed)
__CPROVER_requires(__CPROVER_is_fresh(self, sizeof(*self)) && RXV_VM_PRE)
__CPROVER_assigns(__CPROVER_object_whole(self), rxv_prot, rxv_wx_requests)
__CPROVER_ensures(RXV_VM_POST);
#else
/* the `compiler` member has been constructed (JitCompilerX86 constructor contract): buffer RW */
void CompiledVm_ctor(struct randomx_vm* self, randomx_flags flags)
__CPROVER_requires(__CPROVER_is_fresh(self, sizeof(*self)) && rxv_prot == RXV_RW)
__CPROVER_assigns(__CPROVER_object_whole(self), rxv_prot, rxv_wx_requests)
__CPROVER_ensures(RXV_CTOR_POST);

void CompiledVm_run(struct randomx_vm* self, void* seed)
__CPROVER_requires(__CPROVER_is_fresh(self, sizeof(*self)) && __CPROVER_is_fresh(self->datasetPtr, sizeof(randomx_dataset)) && RXV_VM_PRE)
__CPROVER_assigns(__CPROVER_object_whole(self), rxv_prot, rxv_wx_requests)
__CPROVER_ensures(RXV_VM_POST);
#endif
#ifdef RXV_CACHE_PROT
void initCache(randomx_cache* cache, const void* key, size_t keySize) __CPROVER_requires(1) __CPROVER_ensures(1) __CPROVER_assigns();
/* a cache allocated with the JIT flag owns a constructed compiler (buffer RW or, after an earlier initialisation, RX) */
void initCacheCompile(randomx_cache* cache, const void* key, size_t keySize)
__CPROVER_requires(__CPROVER_is_fresh(cache, sizeof(*cache)) && __CPROVER_is_fresh(cache->jit, sizeof(struct JitCompilerX86)) && RXV_SECURE_INV)
__CPROVER_assigns(rxv_prot, rxv_wx_requests)
__CPROVER_ensures(rxv_prot == RXV_RX && rxv_wx_requests == __CPROVER_old(rxv_wx_requests));
#endif
#endif
