/* Contracts of the two multiplying executors (bytecode_machine.hpp), used so that the instruction-level proof
   (harness_exec.c) never has to prove two 64x64 multipliers equivalent (out of reach of every installed back end,
   measured): the caller proof replaces the call by this contract with the product as an uninterpreted function,
   and harness_exe_mul.c enforces the same clauses on the real bodies with RXV_MUL64 instantiated by C's `*`. */
#ifndef RXV_CONTRACTS_EXE_H
#define RXV_CONTRACTS_EXE_H
#ifndef RXV_MUL64
/* UF: 64-bit product (instantiated by `*` where the executor bodies are checked) */
uint64_t __CPROVER_uninterpreted_mul64(uint64_t, uint64_t);
#define RXV_MUL64(a, b) __CPROVER_uninterpreted_mul64(a, b)
#endif
#define RXV_EXE_IMUL_R_POST(dst_new, dst_old, src_old) ((dst_new) == RXV_MUL64(dst_old, src_old))
/* address and operand of the memory form: 8 bytes at (src + imm) & memMask, read through load64 */
#define RXV_EXE_MEM_ADDR(src_old, imm, mask) ((uint32_t)((src_old) + (imm)) & (mask))

#ifndef RXV_EXE_NO_CONTRACT_DECLS
static void BytecodeMachine_exe_IMUL_R(InstructionByteCode* ibc, int* pc, uint8_t* scratchpad, ProgramConfiguration* config, randomx_flags flags)
__CPROVER_requires(__CPROVER_rw_ok(ibc, sizeof(*ibc)) && __CPROVER_rw_ok(ibc->idst, 8) && __CPROVER_r_ok(ibc->isrc, 8))
__CPROVER_ensures(RXV_EXE_IMUL_R_POST(*ibc->idst, __CPROVER_old(*ibc->idst), __CPROVER_old(*ibc->isrc)))
__CPROVER_assigns(*ibc->idst);

static void BytecodeMachine_exe_IMUL_M(InstructionByteCode* ibc, int* pc, uint8_t* scratchpad, ProgramConfiguration* config, randomx_flags flags)
__CPROVER_requires(__CPROVER_rw_ok(ibc, sizeof(*ibc)) && __CPROVER_rw_ok(ibc->idst, 8) && __CPROVER_r_ok(ibc->isrc, 8))
__CPROVER_requires(scratchpad == rxv_sp && (__CPROVER_size_t)RXV_EXE_MEM_ADDR(*ibc->isrc, ibc->imm, ibc->memMask) + 8 <= RXV_SP_SIZE)
__CPROVER_ensures(RXV_EXE_IMUL_R_POST(*ibc->idst, __CPROVER_old(*ibc->idst),
	__CPROVER_uninterpreted_mem64(RXV_EXE_MEM_ADDR(__CPROVER_old(*ibc->isrc), __CPROVER_old(ibc->imm), __CPROVER_old(ibc->memMask)))))
__CPROVER_assigns(*ibc->idst);
#endif
#endif
