/* Contracts for src/virtual_memory.c (unmodified C, Linux branch) over a ghost page-protection model.
   mmap / mprotect / munmap are STUBs (stubs/mman_stub.c) that record what the library REQUESTS:
     rxv_prot         protection most recently requested for a mapping (PROT_* bits)
     rxv_wx_requests  number of requests so far that contained both PROT_WRITE and PROT_EXEC
     rxv_maps / rxv_unmaps / rxv_mapped_bytes / rxv_unmapped_bytes   mapping bookkeeping (C15)
   TRUSTED: the kernel implements what is requested. */
#ifndef RXV_CONTRACTS_VMEM_H
#define RXV_CONTRACTS_VMEM_H
#include <stddef.h>
#define RXV_PROT_R 1
#define RXV_PROT_W 2
#define RXV_PROT_X 4
extern int rxv_prot, rxv_wx_requests, rxv_maps, rxv_unmaps, rxv_map_fail;
extern size_t rxv_mapped_bytes, rxv_unmapped_bytes;
#define RXV_VMEM_GHOST rxv_prot, rxv_wx_requests, rxv_maps, rxv_unmaps, rxv_mapped_bytes, rxv_unmapped_bytes

void* allocMemoryPages(size_t bytes)
__CPROVER_requires(bytes > 0 && bytes < ((size_t)1 << 40))
__CPROVER_assigns(RXV_VMEM_GHOST)
__CPROVER_ensures(rxv_wx_requests == __CPROVER_old(rxv_wx_requests))
__CPROVER_ensures(rxv_unmaps == __CPROVER_old(rxv_unmaps) && rxv_unmapped_bytes == __CPROVER_old(rxv_unmapped_bytes))   /* an allocation releases nothing */
__CPROVER_ensures(__CPROVER_return_value == NULL
	? (rxv_maps == __CPROVER_old(rxv_maps))
	: (rxv_prot == (RXV_PROT_R | RXV_PROT_W) && rxv_maps == __CPROVER_old(rxv_maps) + 1
	   && rxv_mapped_bytes == __CPROVER_old(rxv_mapped_bytes) + bytes && __CPROVER_is_fresh(__CPROVER_return_value, bytes)));

void* allocLargePagesMemory(size_t bytes)
__CPROVER_requires(bytes > 0 && bytes < ((size_t)1 << 40))
__CPROVER_assigns(RXV_VMEM_GHOST)
__CPROVER_ensures(rxv_wx_requests == __CPROVER_old(rxv_wx_requests))
__CPROVER_ensures(rxv_unmaps == __CPROVER_old(rxv_unmaps) && rxv_unmapped_bytes == __CPROVER_old(rxv_unmapped_bytes))   /* an allocation releases nothing */
__CPROVER_ensures(__CPROVER_return_value == NULL
	? (rxv_maps == __CPROVER_old(rxv_maps))
	: (rxv_prot == (RXV_PROT_R | RXV_PROT_W) && rxv_maps == __CPROVER_old(rxv_maps) + 1
	   && rxv_mapped_bytes == __CPROVER_old(rxv_mapped_bytes) + bytes && __CPROVER_is_fresh(__CPROVER_return_value, bytes)));

void setPagesRW(void* ptr, size_t bytes)
__CPROVER_assigns(rxv_prot, rxv_wx_requests)
__CPROVER_ensures(rxv_prot == (RXV_PROT_R | RXV_PROT_W) && rxv_wx_requests == __CPROVER_old(rxv_wx_requests));

void setPagesRX(void* ptr, size_t bytes)
__CPROVER_assigns(rxv_prot, rxv_wx_requests)
__CPROVER_ensures(rxv_prot == (RXV_PROT_R | RXV_PROT_X) && rxv_wx_requests == __CPROVER_old(rxv_wx_requests));

void setPagesRWX(void* ptr, size_t bytes)
__CPROVER_assigns(rxv_prot, rxv_wx_requests)
__CPROVER_ensures(rxv_prot == (RXV_PROT_R | RXV_PROT_W | RXV_PROT_X) && rxv_wx_requests == __CPROVER_old(rxv_wx_requests) + 1);

void freePagedMemory(void* ptr, size_t bytes)
__CPROVER_assigns(rxv_unmaps, rxv_unmapped_bytes)
__CPROVER_ensures(ptr == NULL ? (rxv_unmaps == __CPROVER_old(rxv_unmaps))
	: (rxv_unmaps == __CPROVER_old(rxv_unmaps) + 1 && rxv_unmapped_bytes == __CPROVER_old(rxv_unmapped_bytes) + bytes));
#endif
