/* C16-4 / C01-3: randomx_create_vm (extracted from src/randomx.cpp) constructs, for every flag value, the class whose
   template arguments correspond to the flag bits (randomx.h: JIT, FULL_MEM, HARD_AES, LARGE_PAGES, SECURE).  The
   aliases (vm_*.hpp `using X = Class<Allocator, softAes[, secureJit]>`) are resolved by the extractor into explicit
   arguments of rxv_new_<Class>.  The default: UNREACHABLE of the switch is an obligation. */
#define RXV_T_AlignedAllocator 1
#define RXV_T_LargePageAllocator 2
enum { RXV_CLS_NONE, RXV_CLS_InterpretedLightVm, RXV_CLS_InterpretedVm, RXV_CLS_CompiledLightVm, RXV_CLS_CompiledVm };
#include "rx.c"
int rxv_new_cls, rxv_new_alloc, rxv_new_soft, rxv_new_secure, rxv_new_count, rxv_alloc_called, rxv_set_cache_called, rxv_set_dataset_called;
static struct randomx_vm the_vm;
static randomx_vm* mk(int cls, int alloc, int soft, int secure) { rxv_new_cls = cls; rxv_new_alloc = alloc; rxv_new_soft = soft; rxv_new_secure = secure; rxv_new_count++; return &the_vm; }
randomx_vm* rxv_new_InterpretedLightVm(int alloc, int soft, randomx_flags f) { return mk(RXV_CLS_InterpretedLightVm, alloc, soft, -1); }
randomx_vm* rxv_new_InterpretedVm(int alloc, int soft, randomx_flags f) { return mk(RXV_CLS_InterpretedVm, alloc, soft, -1); }
randomx_vm* rxv_new_CompiledLightVm(int alloc, int soft, int secure, randomx_flags f) { return mk(RXV_CLS_CompiledLightVm, alloc, soft, secure); }
randomx_vm* rxv_new_CompiledVm(int alloc, int soft, int secure, randomx_flags f) { return mk(RXV_CLS_CompiledVm, alloc, soft, secure); }
void rxv_delete(randomx_vm* vm) { }
void randomx_vm_setCache(randomx_vm* vm, randomx_cache* c) { rxv_set_cache_called++; }
void randomx_vm_setDataset(randomx_vm* vm, randomx_dataset* d) { rxv_set_dataset_called++; }
void randomx_vm_allocate(randomx_vm* vm) { rxv_alloc_called++; }
_Bool randomx_cache_isInitialized(randomx_cache* c) { return 1; }
int nondet_int(void);
void h_create_vm(void) {
	randomx_flags flags = nondet_int();
	static randomx_cache cache; static randomx_dataset dataset;
	randomx_cache* pc = nondet_int() ? &cache : (randomx_cache*)0;
	randomx_dataset* pd = nondet_int() ? &dataset : (randomx_dataset*)0;
	/* documented preconditions (the function's own asserts) */
	__CPROVER_assume(pc != 0 || (flags & RANDOMX_FLAG_FULL_MEM));
	__CPROVER_assume(pd != 0 || !(flags & RANDOMX_FLAG_FULL_MEM));
	rxv_new_count = 0; rxv_alloc_called = 0; rxv_set_cache_called = 0; rxv_set_dataset_called = 0;
	randomx_vm* vm = randomx_create_vm(flags, pc, pd);
	__CPROVER_assert(vm == &the_vm && rxv_new_count == 1 && rxv_alloc_called == 1, "exactly one VM object is constructed and allocated");
	int jit = (flags & RANDOMX_FLAG_JIT) != 0, full = (flags & RANDOMX_FLAG_FULL_MEM) != 0;
	__CPROVER_assert(rxv_new_cls == (jit ? (full ? RXV_CLS_CompiledVm : RXV_CLS_CompiledLightVm) : (full ? RXV_CLS_InterpretedVm : RXV_CLS_InterpretedLightVm)),
		"engine and memory mode follow the JIT and FULL_MEM flags");
	__CPROVER_assert(rxv_new_alloc == ((flags & RANDOMX_FLAG_LARGE_PAGES) ? RXV_T_LargePageAllocator : RXV_T_AlignedAllocator), "allocator follows LARGE_PAGES");
	__CPROVER_assert(rxv_new_soft == ((flags & RANDOMX_FLAG_HARD_AES) ? 0 : 1), "software AES unless HARD_AES");
	__CPROVER_assert(!jit || rxv_new_secure == ((flags & RANDOMX_FLAG_SECURE) ? 1 : 0), "a JIT VM is the W^X (secure) variant exactly when SECURE is requested");
	__CPROVER_assert((pc != 0) == (rxv_set_cache_called == 1) && (pd != 0) == (rxv_set_dataset_called == 1), "cache/dataset bound when given");
	__CPROVER_assert(0, "canary");
}
