#include <stdint.h>
unsigned rxv_fprc;
uint8_t* rxv_sp;
int rxv_store_count;
__CPROVER_size_t rxv_store_off;
uint64_t rxv_store_val;
