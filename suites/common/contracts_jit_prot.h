/* Page-protection contracts of the x86 JIT compiler object and of the compiled VM classes (C16, C01).
   Ghost model: contracts_vmem.h.  Code generation requires the buffer to be writable, running generated code requires it
   to be executable; these two requirements are what "pages are writable only while code is generated and executable only
   while it runs" means operationally, and rxv_wx_requests counts requests for W and X together. */
#ifndef RXV_CONTRACTS_JIT_PROT_H
#define RXV_CONTRACTS_JIT_PROT_H
#include "contracts_vmem.h"
#define RXV_RW (RXV_PROT_R | RXV_PROT_W)
#define RXV_RX (RXV_PROT_R | RXV_PROT_X)
#define RXV_RWX (RXV_PROT_R | RXV_PROT_W | RXV_PROT_X)

void JitCompilerX86_ctor(struct JitCompilerX86* self)
__CPROVER_requires(__CPROVER_rw_ok(self, sizeof(*self)))
__CPROVER_assigns(__CPROVER_object_whole(self), RXV_VMEM_GHOST)
__CPROVER_ensures(self->code != NULL && rxv_prot == RXV_RW && rxv_wx_requests == __CPROVER_old(rxv_wx_requests));   /* the failure path throws */

void JitCompilerX86_enableAll(struct JitCompilerX86* self)
__CPROVER_requires(__CPROVER_r_ok(self, sizeof(*self)))
__CPROVER_assigns(rxv_prot, rxv_wx_requests)
__CPROVER_ensures(rxv_prot == RXV_RWX && rxv_wx_requests == __CPROVER_old(rxv_wx_requests) + 1);

void JitCompilerX86_enableWriting(struct JitCompilerX86* self)
__CPROVER_requires(__CPROVER_r_ok(self, sizeof(*self)))
__CPROVER_assigns(rxv_prot, rxv_wx_requests)
__CPROVER_ensures(rxv_prot == RXV_RW && rxv_wx_requests == __CPROVER_old(rxv_wx_requests));

void JitCompilerX86_enableExecution(struct JitCompilerX86* self)
__CPROVER_requires(__CPROVER_r_ok(self, sizeof(*self)))
__CPROVER_assigns(rxv_prot, rxv_wx_requests)
__CPROVER_ensures(rxv_prot == RXV_RX && rxv_wx_requests == __CPROVER_old(rxv_wx_requests));

#ifdef RXV_VM_PROT_CONTRACTS
/* code generators write into the buffer (bodies: C04/C06); generated code is executed from it */
void JitCompilerX86_generateProgram(struct JitCompilerX86* self, Program* prog, ProgramConfiguration* pcfg)
__CPROVER_requires((rxv_prot & RXV_PROT_W) != 0) __CPROVER_ensures(1) __CPROVER_assigns();
void JitCompilerX86_generateProgramLight(struct JitCompilerX86* self, Program* prog, ProgramConfiguration* pcfg, uint32_t datasetOffset)
__CPROVER_requires((rxv_prot & RXV_PROT_W) != 0) __CPROVER_ensures(1) __CPROVER_assigns();
void JitCompilerX86_generateSuperscalarHash(struct JitCompilerX86* self, void* programs, void* reciprocalCache)
__CPROVER_requires((rxv_prot & RXV_PROT_W) != 0) __CPROVER_ensures(1) __CPROVER_assigns();
void JitCompilerX86_generateDatasetInitCode(struct JitCompilerX86* self)
__CPROVER_requires((rxv_prot & RXV_PROT_W) != 0) __CPROVER_ensures(1) __CPROVER_assigns();
void JitCompilerX86_setFlags(struct JitCompilerX86* self, randomx_flags f) __CPROVER_requires(1) __CPROVER_ensures(1) __CPROVER_assigns();
#ifndef RXV_CACHE_PROT
void rxv_execute_program(struct JitCompilerX86* self, RegisterFile* reg, MemoryRegisters* mem, uint8_t* scratchpad, uint64_t iterations)
__CPROVER_requires((rxv_prot & RXV_PROT_X) != 0) __CPROVER_ensures(1) __CPROVER_assigns();
void CompiledVm_execute(struct randomx_vm* self)
__CPROVER_requires((rxv_prot & RXV_PROT_X) != 0) __CPROVER_ensures(1) __CPROVER_assigns();
void VmBase_generateProgram(struct randomx_vm* self, void* seed) __CPROVER_requires(1) __CPROVER_ensures(1) __CPROVER_assigns(self->program);
void randomx_vm_initialize(struct randomx_vm* self) __CPROVER_requires(1) __CPROVER_ensures(1) __CPROVER_assigns(self->reg, self->mem.ma, self->mem.mx, self->config, self->datasetOffset);

#endif
/* class invariant of a VM created with the secure flag (secureJit == 1): the buffer is RW or RX, never both W and X,
   and no request for W|X is ever issued; after every public operation that generates code it is RX */
#define RXV_SECURE_INV (rxv_prot == RXV_RW || rxv_prot == RXV_RX)
#if secureJit
#define RXV_VM_PRE RXV_SECURE_INV
#define RXV_VM_POST (rxv_prot == RXV_RX && rxv_wx_requests == __CPROVER_old(rxv_wx_requests))
#define RXV_CTOR_POST (rxv_prot == RXV_RW && rxv_wx_requests == __CPROVER_old(rxv_wx_requests))
#else
#define RXV_VM_PRE (rxv_prot == RXV_RWX)
#define RXV_VM_POST (rxv_prot == RXV_RWX && rxv_wx_requests == __CPROVER_old(rxv_wx_requests))
#define RXV_CTOR_POST (rxv_prot == RXV_RWX && rxv_wx_requests == __CPROVER_old(rxv_wx_requests) + 1)
#endif
#endif
#endif
