"""import an obligation of another property's suite (same files, same contracts) under a name that says what it contributes
to the importing property"""
import importlib.util, os


def imported(pid, name, newname):
    sp = importlib.util.spec_from_file_location("s_" + pid, os.path.join(os.path.dirname(os.path.abspath(__file__)), "..", pid, "suite.py"))
    m = importlib.util.module_from_spec(sp); sp.loader.exec_module(m)
    o = dict([x for x in m.OBLIGATIONS if x["name"] == name][0])
    o["name"] = newname
    o["tier"] = "quick"
    o["files"] = [f if not isinstance(f, str) or f.startswith("@") else "@suites/%s/%s" % (pid, f) for f in o["files"]]
    o["includes"] = [f if f.startswith("@") else "@suites/%s/%s" % (pid, f) for f in o.get("includes", [])]
    o["incdirs"] = list(o.get("incdirs", [])) + ["@suites/" + pid]
    if o.get("replay"):
        r = dict(o["replay"]); r["prog"] = r["prog"] if r["prog"].startswith("@") else "@suites/%s/%s" % (pid, r["prog"]); o["replay"] = r
    return o
