void randomx_vm_setCache(randomx_vm* m, randomx_cache* c);
_Bool randomx_cache_isInitialized(randomx_cache* c);
