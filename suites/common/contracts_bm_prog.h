/* Contract and loop invariant of BytecodeMachine::compileProgram (bytecode_machine.hpp), for C07 (structure of
   branch loops) and C05-3.  compileInstruction is replaced by its contract (contracts_bm.h).
   Ghost probes (nondeterministic, fixed before the call): rxv_pj = an arbitrary earlier slot, rxv_pc = an arbitrary
   CBRANCH slot.  The postcondition for all (j, c) is the universally quantified structural property. */
#ifndef RXV_CONTRACTS_BM_PROG_H
#define RXV_CONTRACTS_BM_PROG_H
#include "contracts_bm.h"
extern unsigned rxv_pj, rxv_pc;   /* ghost probe indices */

#define RXV_W(j) (program->programBuffer[j])
#define RXV_MOD(j, R) SPEC_MODIFIES_X(RXV_W(j).opcode, RXV_W(j).dst, RXV_W(j).src, RXV_W(j).imm32, (R))
#define RXV_PSIZE(flags) (((flags) & RANDOMX_FLAG_V2) ? SPEC_PROGRAM_SIZE_V2 : SPEC_PROGRAM_SIZE_V1)
/* last-writer table entries are -1 or the index of an earlier slot */
#define RXV_RU_RANGE(R, lim) (-1 <= self->registerUsage[R] && self->registerUsage[R] < (int)(lim))
/* if the probe slot j has been compiled and modifies R, the table entry for R is at least j */
#define RXV_RU_PROBE(R, lim) (!(rxv_pj < (lim) && RXV_MOD(rxv_pj, R)) || self->registerUsage[R] >= (int)rxv_pj)
/* the compiled CBRANCH at probe slot c jumps to a target at or after every earlier modifier of its register,
   in particular after every earlier CBRANCH: its loop body (target, c) contains no writer of the register and no branch */
#define RXV_BRANCH_PROBE(lim) (!(rxv_pc < (lim) && SPEC_IS_CBRANCH_X(RXV_W(rxv_pc).opcode)) || \
	(-1 <= bytecode[rxv_pc].target && bytecode[rxv_pc].target < (int)rxv_pc && \
	 (!(rxv_pj < rxv_pc && RXV_MOD(rxv_pj, RXV_W(rxv_pc).dst & 7)) || bytecode[rxv_pc].target >= (int)rxv_pj)))

#define RXV_ALL8(M, lim) (M(0, lim) && M(1, lim) && M(2, lim) && M(3, lim) && M(4, lim) && M(5, lim) && M(6, lim) && M(7, lim))

static void BytecodeMachine_compileProgram(struct BytecodeMachine* self, Program* program, InstructionByteCode bytecode[384], NativeRegisterFile* regFile, randomx_flags flags)
__CPROVER_requires(__CPROVER_is_fresh(self, sizeof(*self)))
__CPROVER_requires(__CPROVER_is_fresh(program, sizeof(*program)))
__CPROVER_requires(__CPROVER_is_fresh(bytecode, 384 * sizeof(InstructionByteCode)))
__CPROVER_requires(__CPROVER_is_fresh(regFile, sizeof(*regFile)))
__CPROVER_requires(rxv_pj < 384 && rxv_pc < 384)
__CPROVER_assigns(__CPROVER_object_whole(bytecode), __CPROVER_object_whole(self))
__CPROVER_ensures(self->nreg == regFile)
__CPROVER_ensures(RXV_ALL8(RXV_RU_RANGE, RXV_PSIZE(flags)))
__CPROVER_ensures(RXV_ALL8(RXV_RU_PROBE, RXV_PSIZE(flags)))
__CPROVER_ensures(RXV_BRANCH_PROBE(RXV_PSIZE(flags)));

#define RXV_COMPILE_PROGRAM_LOOP_INVARIANT \
	__CPROVER_assigns(i, __CPROVER_object_whole(bytecode), __CPROVER_object_whole(self->registerUsage)) \
	__CPROVER_loop_invariant(n == RXV_PSIZE(flags) && i <= n) \
	__CPROVER_loop_invariant(self->nreg == regFile) \
	__CPROVER_loop_invariant(RXV_ALL8(RXV_RU_RANGE, i)) \
	__CPROVER_loop_invariant(RXV_ALL8(RXV_RU_PROBE, i)) \
	__CPROVER_loop_invariant(RXV_BRANCH_PROBE(i)) \
	__CPROVER_decreases(n - i)

#define RXV_BC_INIT(R, lim) ((lim) <= (R) || self->registerUsage[R] == -1)
#define RXV_BEGIN_COMPILATION_LOOP_INVARIANT \
	__CPROVER_assigns(i, __CPROVER_object_whole(self->registerUsage)) \
	__CPROVER_loop_invariant(i <= 8 && RXV_ALL8(RXV_BC_INIT, i)) \
	__CPROVER_decreases(8 - i)
#endif
