/* Independent C reading of doc/specs.md chapters 4.2, 4.3, 5 (instruction set) and design_v2.md (CFROUND rule).
   TRUSTED: this file is the specification oracle for C05/C07/C18/C04/C06; it is written from the
   document, not from the implementation, and uses no repository header.
   Opcode ranges: cumulative frequencies of Tables 5.2.1, 5.3.1, 5.4.1, 5.5.1 in table order. */
#ifndef RXV_SPEC_ISA_H
#define RXV_SPEC_ISA_H
#include <stdint.h>
#include <stdbool.h>

enum spec_kind {
	S_IADD_RS, S_IADD_M, S_ISUB_R, S_ISUB_M, S_IMUL_R, S_IMUL_M, S_IMULH_R, S_IMULH_M, S_ISMULH_R, S_ISMULH_M,
	S_IMUL_RCP, S_INEG_R, S_IXOR_R, S_IXOR_M, S_IROR_R, S_IROL_R, S_ISWAP_R,
	S_FSWAP_R, S_FADD_R, S_FADD_M, S_FSUB_R, S_FSUB_M, S_FSCAL_R, S_FMUL_R, S_FDIV_M, S_FSQRT_R,
	S_CBRANCH, S_CFROUND, S_ISTORE, S_NOP, S_KINDS
};

/* frequencies out of 256 (Tables 5.2.1, 5.3.1, 5.4.1, 5.5.1) */
static const int spec_freq[S_KINDS] = {
	16, 7, 16, 7, 16, 4, 4, 1, 4, 1, 8, 2, 15, 5, 8, 2, 4,
	4, 16, 5, 16, 5, 6, 32, 4, 6,
	25, 1, 16, 0
};

/* Table 4.2.1: 8-byte aligned address masks */
#define SPEC_L1_MASK 0x3FF8u       /* 16 KiB  */
#define SPEC_L2_MASK 0x3FFF8u      /* 256 KiB */
#define SPEC_L3_MASK 0x1FFFF8u     /* 2 MiB   */
#define SPEC_L3_MASK64 0x1FFFC0u   /* 64-byte aligned, 4.6.2 */
#define SPEC_SCRATCHPAD_SIZE 2097152u
#define SPEC_JUMP_OFFSET 8
#define SPEC_JUMP_BITS 8

static inline int spec_kind_of(uint8_t opcode) {
	int acc = 0;
	for (int k = 0; k < S_KINDS; k++) {
		acc += spec_freq[k];
		if (opcode < acc) return k;
	}
	return S_NOP; /* frequencies sum to 256: not reached */
}
static inline int spec_opcode_lo(int kind) { int acc = 0; for (int k = 0; k < kind; k++) acc += spec_freq[k]; return acc; }
static inline int spec_opcode_hi(int kind) { return spec_opcode_lo(kind) + spec_freq[kind]; } /* exclusive */

static inline uint64_t spec_sext32(uint32_t x) { return (x & 0x80000000u) ? (0xffffffff00000000ULL | x) : (uint64_t)x; }
static inline int spec_mod_mem(uint8_t mod) { return mod & 3; }
static inline int spec_mod_shift(uint8_t mod) { return (mod >> 2) & 3; }
static inline int spec_mod_cond(uint8_t mod) { return (mod >> 4) & 15; }

static inline bool spec_is_int_mem(int k) { return k == S_IADD_M || k == S_ISUB_M || k == S_IMUL_M || k == S_IMULH_M || k == S_ISMULH_M || k == S_IXOR_M; }
static inline bool spec_is_fp_mem(int k) { return k == S_FADD_M || k == S_FSUB_M || k == S_FDIV_M; }
/* "src == dst ? src = imm32" column of Table 5.2.1 */
static inline bool spec_src_imm_if_same(int k) { return k == S_ISUB_R || k == S_IMUL_R || k == S_IXOR_R || k == S_IROR_R || k == S_IROL_R; }

/* Table 5.1.4 */
static inline uint32_t spec_read_mask(uint8_t dst, uint8_t src, uint8_t mod, bool int_dst) {
	if (int_dst && (dst & 7) == (src & 7)) return SPEC_L3_MASK;
	return spec_mod_mem(mod) == 0 ? SPEC_L2_MASK : SPEC_L1_MASK;
}
static inline uint32_t spec_write_mask(uint8_t mod) {
	if (spec_mod_cond(mod) >= 14) return SPEC_L3_MASK;
	return spec_mod_mem(mod) == 0 ? SPEC_L2_MASK : SPEC_L1_MASK;
}

/* 5.4.2 */
static inline int spec_cbranch_b(uint8_t mod) { return spec_mod_cond(mod) + SPEC_JUMP_OFFSET; }
static inline uint64_t spec_cimm(uint32_t imm32, uint8_t mod) {
	int b = spec_cbranch_b(mod);
	uint64_t c = spec_sext32(imm32);
	c |= (1ULL << b);
	if (b > 0) c &= ~(1ULL << (b - 1));
	return c;
}
static inline uint64_t spec_cbranch_mask(uint8_t mod) { return ((1ULL << SPEC_JUMP_BITS) - 1) << spec_cbranch_b(mod); }

static inline bool spec_zero_or_pow2(uint32_t x) {
	if (x == 0) return true;
	for (int k = 0; k < 32; k++) if (x == (1u << k)) return true;
	return false;
}

/* 5.4.2 "A register is considered as modified by an instruction in the following cases" */
static inline bool spec_modifies(int kind, uint8_t dst, uint8_t src, uint32_t imm32, int reg) {
	int d = dst & 7, s = src & 7;
	switch (kind) {
	case S_IADD_RS: case S_IADD_M: case S_ISUB_R: case S_ISUB_M: case S_IMUL_R: case S_IMUL_M:
	case S_IMULH_R: case S_IMULH_M: case S_ISMULH_R: case S_ISMULH_M: case S_INEG_R: case S_IXOR_R:
	case S_IXOR_M: case S_IROR_R: case S_IROL_R:
		return reg == d;
	case S_IMUL_RCP:
		return reg == d && !spec_zero_or_pow2(imm32);
	case S_ISWAP_R:
		return d != s && (reg == d || reg == s);
	case S_CBRANCH:
		return true;
	default:
		return false;
	}
}

static inline uint64_t spec_rotr64(uint64_t x, unsigned c) { c &= 63; return c ? (x >> c) | (x << (64 - c)) : x; }
static inline uint64_t spec_rotl64(uint64_t x, unsigned c) { c &= 63; return c ? (x << c) | (x >> (64 - c)) : x; }

#endif
