/* Independent C reading of doc/specs.md chapters 4.2, 4.3, 5 (instruction set) and design_v2.md (CFROUND rule).
   TRUSTED: this file is the specification oracle for C05/C07/C18/C04/C06; it is written from the
   document, not from the implementation, and uses no repository header.
   Opcode ranges: cumulative frequencies of Tables 5.2.1, 5.3.1, 5.4.1, 5.5.1 in table order. */
#ifndef RXV_SPEC_ISA_H
#define RXV_SPEC_ISA_H
#include <stdint.h>
#include <stdbool.h>
#include <math.h>

enum spec_kind {
	S_IADD_RS, S_IADD_M, S_ISUB_R, S_ISUB_M, S_IMUL_R, S_IMUL_M, S_IMULH_R, S_IMULH_M, S_ISMULH_R, S_ISMULH_M,
	S_IMUL_RCP, S_INEG_R, S_IXOR_R, S_IXOR_M, S_IROR_R, S_IROL_R, S_ISWAP_R,
	S_FSWAP_R, S_FADD_R, S_FADD_M, S_FSUB_R, S_FSUB_M, S_FSCAL_R, S_FMUL_R, S_FDIV_M, S_FSQRT_R,
	S_CBRANCH, S_CFROUND, S_ISTORE, S_NOP, S_KINDS
};

/* frequencies out of 256 (Tables 5.2.1, 5.3.1, 5.4.1, 5.5.1) */
static const int spec_freq[S_KINDS] = {
	16, 7, 16, 7, 16, 4, 4, 1, 4, 1, 8, 2, 15, 5, 8, 2, 4,
	4, 16, 5, 16, 5, 6, 32, 4, 6,
	25, 1, 16, 0
};

/* Table 4.2.1: 8-byte aligned address masks */
#define SPEC_L1_MASK 0x3FF8u       /* 16 KiB  */
#define SPEC_L2_MASK 0x3FFF8u      /* 256 KiB */
#define SPEC_L3_MASK 0x1FFFF8u     /* 2 MiB   */
#define SPEC_L3_MASK64 0x1FFFC0u   /* 64-byte aligned, 4.6.2 */
#define SPEC_SCRATCHPAD_SIZE 2097152u
#define SPEC_JUMP_OFFSET 8
#define SPEC_JUMP_BITS 8

static inline int spec_kind_of(uint8_t opcode) {
	int acc = 0;
	for (int k = 0; k < S_KINDS; k++) {
		acc += spec_freq[k];
		if (opcode < acc) return k;
	}
	return S_NOP; /* frequencies sum to 256: not reached */
}
static inline int spec_opcode_lo(int kind) { int acc = 0; for (int k = 0; k < kind; k++) acc += spec_freq[k]; return acc; }
static inline int spec_opcode_hi(int kind) { return spec_opcode_lo(kind) + spec_freq[kind]; } /* exclusive */

static inline uint64_t spec_sext32(uint32_t x) { return (x & 0x80000000u) ? (0xffffffff00000000ULL | x) : (uint64_t)x; }
static inline int spec_mod_mem(uint8_t mod) { return mod & 3; }
static inline int spec_mod_shift(uint8_t mod) { return (mod >> 2) & 3; }
static inline int spec_mod_cond(uint8_t mod) { return (mod >> 4) & 15; }

static inline bool spec_is_int_mem(int k) { return k == S_IADD_M || k == S_ISUB_M || k == S_IMUL_M || k == S_IMULH_M || k == S_ISMULH_M || k == S_IXOR_M; }
static inline bool spec_is_fp_mem(int k) { return k == S_FADD_M || k == S_FSUB_M || k == S_FDIV_M; }
/* "src == dst ? src = imm32" column of Table 5.2.1 */
static inline bool spec_src_imm_if_same(int k) { return k == S_ISUB_R || k == S_IMUL_R || k == S_IXOR_R || k == S_IROR_R || k == S_IROL_R; }

/* Table 5.1.4 */
static inline uint32_t spec_read_mask(uint8_t dst, uint8_t src, uint8_t mod, bool int_dst) {
	if (int_dst && (dst & 7) == (src & 7)) return SPEC_L3_MASK;
	return spec_mod_mem(mod) == 0 ? SPEC_L2_MASK : SPEC_L1_MASK;
}
static inline uint32_t spec_write_mask(uint8_t mod) {
	if (spec_mod_cond(mod) >= 14) return SPEC_L3_MASK;
	return spec_mod_mem(mod) == 0 ? SPEC_L2_MASK : SPEC_L1_MASK;
}

/* 5.4.2 */
static inline int spec_cbranch_b(uint8_t mod) { return spec_mod_cond(mod) + SPEC_JUMP_OFFSET; }
static inline uint64_t spec_cimm(uint32_t imm32, uint8_t mod) {
	int b = spec_cbranch_b(mod);
	uint64_t c = spec_sext32(imm32);
	c |= (1ULL << b);
	if (b > 0) c &= ~(1ULL << (b - 1));
	return c;
}
static inline uint64_t spec_cbranch_mask(uint8_t mod) { return ((1ULL << SPEC_JUMP_BITS) - 1) << spec_cbranch_b(mod); }

static inline bool spec_zero_or_pow2(uint32_t x) {
	if (x == 0) return true;
	for (int k = 0; k < 32; k++) if (x == (1u << k)) return true;
	return false;
}

/* 5.4.2 "A register is considered as modified by an instruction in the following cases" */
static inline bool spec_modifies(int kind, uint8_t dst, uint8_t src, uint32_t imm32, int reg) {
	int d = dst & 7, s = src & 7;
	switch (kind) {
	case S_IADD_RS: case S_IADD_M: case S_ISUB_R: case S_ISUB_M: case S_IMUL_R: case S_IMUL_M:
	case S_IMULH_R: case S_IMULH_M: case S_ISMULH_R: case S_ISMULH_M: case S_INEG_R: case S_IXOR_R:
	case S_IXOR_M: case S_IROR_R: case S_IROL_R:
		return reg == d;
	case S_IMUL_RCP:
		return reg == d && !spec_zero_or_pow2(imm32);
	case S_ISWAP_R:
		return d != s && (reg == d || reg == s);
	case S_CBRANCH:
		return true;
	default:
		return false;
	}
}

static inline uint64_t spec_rotr64(uint64_t x, unsigned c) { c &= 63; return c ? (x >> c) | (x << (64 - c)) : x; }
static inline uint64_t spec_rotl64(uint64_t x, unsigned c) { c &= 63; return c ? (x << c) | (x >> (64 - c)) : x; }


/* ---------------------------------------------------------------------------------------------
   One instruction step on an abstract machine state (chapters 4.3, 5.2-5.5).
   FP arithmetic is the host's IEEE-754 double arithmetic under the current rounding mode (shared with
   the implementation side in the proof); sqrt / 128-bit products / reciprocal go through the
   SPEC_SQRT / SPEC_MULH / SPEC_SMULH / SPEC_RCP hooks so that both sides use the same abstract operation. */
typedef struct { double lo, hi; } spec_f2;
typedef struct {
	uint64_t r[8];
	spec_f2 f[4], e[4], a[4];
	unsigned fprc;        /* 2-bit rounding mode register */
	int pc;               /* index of the instruction being executed */
	/* ISTORE effect */
	bool stored; uint32_t store_addr; uint64_t store_val;
} spec_state;

/* little-endian memory reads; a proof may route them through an abstract memory (SPEC_LOAD64/32 hooks) */
#ifndef SPEC_LOAD64
#define SPEC_LOAD64(sp, addr) spec_load64_bytes(sp, addr)
#define SPEC_LOAD32(sp, addr) spec_load32_bytes(sp, addr)
#endif
static inline uint64_t spec_load64_bytes(const uint8_t* sp, uint32_t addr) {
	uint64_t v = 0;
	for (int k = 7; k >= 0; k--) v = (v << 8) | sp[addr + k];
	return v;
}
static inline uint32_t spec_load32_bytes(const uint8_t* sp, uint32_t addr) {
	uint32_t v = 0;
	for (int k = 3; k >= 0; k--) v = (v << 8) | sp[addr + k];
	return v;
}
static inline uint64_t spec_d2u(double d) { union { double d; uint64_t u; } x; x.d = d; return x.u; }
static inline double spec_u2d(uint64_t u) { union { double d; uint64_t u; } x; x.u = u; return x.d; }
static inline int32_t spec_s32(uint32_t x) { return (x & 0x80000000u) ? (int32_t)(-(int64_t)(0x100000000ULL - x)) : (int32_t)x; }

/* 4.3.1 */
static inline spec_f2 spec_cvt_f2(uint32_t lo32, uint32_t hi32) {
	spec_f2 x;
	x.lo = (double)spec_s32(lo32);
	x.hi = (double)spec_s32(hi32);
	return x;
}
static inline spec_f2 spec_cvt_f(uint64_t mem) { return spec_cvt_f2((uint32_t)mem, (uint32_t)(mem >> 32)); }
/* 4.3.2; m4 = exponent mask (4 bits), frac22 = fraction mask (22 bits) of the respective half */
static inline double spec_cvt_e1(double v, unsigned m4, uint32_t frac22) {
	uint64_t b = spec_d2u(v);
	uint64_t expo = (b >> 52) & 0x7ff, frac = b & ((1ULL << 52) - 1);
	expo = (expo & 0x00f) | 0x300 | ((uint64_t)(m4 & 15) << 4);  /* top three bits 011, next four = exponent mask */
	frac = (frac & ~0x3fffffULL) | (frac22 & 0x3fffff);
	return spec_u2d((expo << 52) | frac);                           /* sign bit 0 */
}
static inline spec_f2 spec_cvt_e2(spec_f2 x, const unsigned m4[2], const uint32_t frac22[2]) {
	x.lo = spec_cvt_e1(x.lo, m4[0], frac22[0]);
	x.hi = spec_cvt_e1(x.hi, m4[1], frac22[1]);
	return x;
}
static inline spec_f2 spec_cvt_e(uint64_t mem, const unsigned m4[2], const uint32_t frac22[2]) {
	spec_f2 x = spec_cvt_f(mem);
	x.lo = spec_cvt_e1(x.lo, m4[0], frac22[0]);
	x.hi = spec_cvt_e1(x.hi, m4[1], frac22[1]);
	return x;
}

#ifndef SPEC_SQRT
#define SPEC_SQRT(x) sqrt(x)
#endif
#ifndef SPEC_FADD
#define SPEC_FADD(a, b) ((a) + (b))
#define SPEC_FSUB(a, b) ((a) - (b))
#define SPEC_FMUL(a, b) ((a) * (b))
#define SPEC_FDIV(a, b) ((a) / (b))
#endif
#ifndef SPEC_MULH
#define SPEC_MULH(a, b) ((uint64_t)(((unsigned __int128)(a) * (b)) >> 64))
#endif
#ifndef SPEC_SMULH
#define SPEC_SMULH(a, b) ((uint64_t)(((__int128)(int64_t)(a) * (int64_t)(b)) >> 64))
#endif
#ifndef SPEC_MUL64
#define SPEC_MUL64(a, b) ((uint64_t)(a) * (uint64_t)(b))
#endif
#ifndef SPEC_RCP
#define SPEC_RCP(d) spec_rcp(d)
static inline uint64_t spec_rcp(uint32_t d) {
	int bl = 0; for (uint32_t t = d; t; t >>= 1) bl++;
	return (uint64_t)((((unsigned __int128)1) << (63 + bl)) / d);
}
#endif

/* lw = index of the instruction that last modified register dst (-1 if none) - only used by CBRANCH */
/* k must equal spec_kind_of(opcode); it is a separate parameter so that a caller that fixes the kind gets a specialised step */
static inline void spec_step_k(spec_state* st, const uint8_t* sp, int k, uint8_t dst, uint8_t src, uint8_t mod,
		uint32_t imm32, int lw, bool v2, const unsigned m4[2], const uint32_t frac22[2]) {
	int d = dst & 7, s = src & 7, df = dst & 3, sf = src & 3;
	uint64_t simm = spec_sext32(imm32);
	st->stored = false;
	uint64_t srcv = st->r[s];
	if (spec_is_int_mem(k)) {
		uint64_t base = (d == s) ? 0 : st->r[s];
		srcv = SPEC_LOAD64(sp, (uint32_t)(base + simm) & spec_read_mask(dst, src, mod, true));
	} else if (spec_src_imm_if_same(k) && d == s) {
		srcv = simm;
	}
	spec_f2 fm = { 0.0, 0.0 };
	if (spec_is_fp_mem(k)) {
		/* the 8-byte operand is a pair of little-endian 32-bit integers: low half first */
		uint32_t fa = (uint32_t)(st->r[s] + simm) & spec_read_mask(dst, src, mod, false);
		fm = spec_cvt_f2(SPEC_LOAD32(sp, fa), SPEC_LOAD32(sp, fa + 4));
	}
	switch (k) {
	case S_IADD_RS: st->r[d] += (st->r[s] << spec_mod_shift(mod)) + (d == 5 ? simm : 0); break;
	case S_IADD_M: st->r[d] += srcv; break;
	case S_ISUB_R: case S_ISUB_M: st->r[d] -= srcv; break;
	case S_IMUL_R: case S_IMUL_M: st->r[d] = SPEC_MUL64(st->r[d], srcv); break;
	case S_IMULH_R: case S_IMULH_M: st->r[d] = SPEC_MULH(st->r[d], srcv); break;
	case S_ISMULH_R: case S_ISMULH_M: st->r[d] = SPEC_SMULH(st->r[d], srcv); break;
	case S_IMUL_RCP: if (!spec_zero_or_pow2(imm32)) st->r[d] = SPEC_MUL64(st->r[d], SPEC_RCP(imm32)); break;
	case S_INEG_R: st->r[d] = 0 - st->r[d]; break;
	case S_IXOR_R: case S_IXOR_M: st->r[d] ^= srcv; break;
	case S_IROR_R: st->r[d] = spec_rotr64(st->r[d], (unsigned)(srcv & 63)); break;
	case S_IROL_R: st->r[d] = spec_rotl64(st->r[d], (unsigned)(srcv & 63)); break;
	case S_ISWAP_R: if (d != s) { uint64_t t = st->r[s]; st->r[s] = st->r[d]; st->r[d] = t; } break;
	case S_FSWAP_R: {
		spec_f2* x = d < 4 ? &st->f[d] : &st->e[d - 4];
		double t = x->lo; x->lo = x->hi; x->hi = t; break; }
	case S_FADD_R: st->f[df].lo = SPEC_FADD(st->f[df].lo, st->a[sf].lo); st->f[df].hi = SPEC_FADD(st->f[df].hi, st->a[sf].hi); break;
	case S_FADD_M: st->f[df].lo = SPEC_FADD(st->f[df].lo, fm.lo); st->f[df].hi = SPEC_FADD(st->f[df].hi, fm.hi); break;
	case S_FSUB_R: st->f[df].lo = SPEC_FSUB(st->f[df].lo, st->a[sf].lo); st->f[df].hi = SPEC_FSUB(st->f[df].hi, st->a[sf].hi); break;
	case S_FSUB_M: st->f[df].lo = SPEC_FSUB(st->f[df].lo, fm.lo); st->f[df].hi = SPEC_FSUB(st->f[df].hi, fm.hi); break;
	case S_FSCAL_R:
		st->f[df].lo = spec_u2d(spec_d2u(st->f[df].lo) ^ 0x80F0000000000000ULL);
		st->f[df].hi = spec_u2d(spec_d2u(st->f[df].hi) ^ 0x80F0000000000000ULL); break;
	case S_FMUL_R: st->e[df].lo = SPEC_FMUL(st->e[df].lo, st->a[sf].lo); st->e[df].hi = SPEC_FMUL(st->e[df].hi, st->a[sf].hi); break;
	case S_FDIV_M: { spec_f2 m = spec_cvt_e2(fm, m4, frac22); st->e[df].lo = SPEC_FDIV(st->e[df].lo, m.lo); st->e[df].hi = SPEC_FDIV(st->e[df].hi, m.hi); break; }
	case S_FSQRT_R: st->e[df].lo = SPEC_SQRT(st->e[df].lo); st->e[df].hi = SPEC_SQRT(st->e[df].hi); break;
	case S_CBRANCH:
		st->r[d] += spec_cimm(imm32, mod);
		if ((st->r[d] & spec_cbranch_mask(mod)) == 0) st->pc = lw;   /* execution continues at lw + 1 */
		break;
	case S_CFROUND: {
		uint64_t v = spec_rotr64(st->r[s], imm32 & 63);
		if (!v2 || ((v >> 2) & 15) == 0) st->fprc = (unsigned)(v & 3);
		break; }
	case S_ISTORE:
		st->stored = true;
		st->store_addr = (uint32_t)(st->r[d] + simm) & spec_write_mask(mod);
		st->store_val = st->r[s];
		break;
	default: break;
	}
}

static inline void spec_step(spec_state* st, const uint8_t* sp, uint8_t opcode, uint8_t dst, uint8_t src, uint8_t mod,
		uint32_t imm32, int lw, bool v2, const unsigned m4[2], const uint32_t frac22[2]) {
	spec_step_k(st, sp, spec_kind_of(opcode), dst, src, mod, imm32, lw, v2, m4, frac22);
}


/* ---- call-free forms (CBMC loop invariants must not contain function calls) ----
   opcode ceilings = cumulative sums of spec_freq (checked against spec_kind_of by obligation spec_macros_agree) */
#define SPEC_PROGRAM_SIZE_V1 256   /* doc/specs.md Table 1.2 */
#define SPEC_PROGRAM_SIZE_V2 384   /* doc/configuration.md (v2) */
#define SPEC_ZP2_X(x) ((((uint32_t)(x)) & (((uint32_t)(x)) - 1u)) == 0u)
#define SPEC_IS_CBRANCH_X(op) ((op) >= 214 && (op) < 239)
#define SPEC_MODIFIES_X(op, dst, src, imm32, R) ( \
	   ((op) < 120 && !((op) >= 76 && (op) < 84) && !((op) >= 116 && (op) < 120) && (((dst) & 7) == (R))) \
	|| ((op) >= 76 && (op) < 84 && (((dst) & 7) == (R)) && !SPEC_ZP2_X(imm32)) \
	|| ((op) >= 116 && (op) < 120 && (((dst) & 7) != ((src) & 7)) && ((((dst) & 7) == (R)) || (((src) & 7) == (R)))) \
	|| SPEC_IS_CBRANCH_X(op))

#endif
