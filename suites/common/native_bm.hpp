/* native (g++) view of the names the extracted C uses, so that the same predicates (contracts_bm.h,
   spec_isa.h) can be evaluated against the real C++ classes in replays */
#define private public
#define protected public
#include "bytecode_machine.hpp"
#include "reciprocal.h"
#undef private
#undef protected
#include <cstdio>
#include <cstdlib>
#include <cstring>
#include <string>
#include <map>
using namespace randomx;
#define RXV_NATIVE 1
#define RXV_IT(x) static const InstructionType InstructionType_##x = InstructionType::x;
RXV_IT(IADD_RS) RXV_IT(IADD_M) RXV_IT(ISUB_R) RXV_IT(ISUB_M) RXV_IT(IMUL_R) RXV_IT(IMUL_M) RXV_IT(IMULH_R) RXV_IT(IMULH_M)
RXV_IT(ISMULH_R) RXV_IT(ISMULH_M) RXV_IT(IMUL_RCP) RXV_IT(INEG_R) RXV_IT(IXOR_R) RXV_IT(IXOR_M) RXV_IT(IROR_R) RXV_IT(IROL_R)
RXV_IT(ISWAP_R) RXV_IT(FSWAP_R) RXV_IT(FADD_R) RXV_IT(FADD_M) RXV_IT(FSUB_R) RXV_IT(FSUB_M) RXV_IT(FSCAL_R) RXV_IT(FMUL_R)
RXV_IT(FDIV_M) RXV_IT(FSQRT_R) RXV_IT(CBRANCH) RXV_IT(CFROUND) RXV_IT(ISTORE) RXV_IT(NOP)
#define BytecodeMachine_zero BytecodeMachine::zero
static inline uint64_t rxv_native_rcp(uint32_t d) { return (d == 0 || (d & (d - 1)) == 0) ? 0 : randomx_reciprocal(d); }
#define __CPROVER_uninterpreted_rcp rxv_native_rcp
#include "contracts_bm.h"

/* argv "key=value" pairs from the verifier's counterexample */
struct Args {
	std::map<std::string, unsigned long long> m;
	Args(int argc, char** argv) {
		for (int i = 1; i < argc; i++) { char* e = strchr(argv[i], '='); if (e) m[std::string(argv[i], e - argv[i])] = strtoull(e + 1, 0, 10); }
	}
	unsigned long long get(const char* k, unsigned long long dflt = 0) const { auto it = m.find(k); return it == m.end() ? dflt : it->second; }
	bool has(const char* k) const { return m.count(k) != 0; }
};
