#include <stdint.h>
#include <stddef.h>
int rxv_s_state; uint64_t rxv_s_len, rxv_s_probe; size_t rxv_s_outlen; uint8_t rxv_s_byte; const void* rxv_s_out; size_t rxv_s_final_outlen;
