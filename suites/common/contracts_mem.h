/* Abstract scratchpad memory for instruction-level proofs.
   The little-endian accessors of src/blake2/endian.h are replaced by these contracts at their call sites:
   the call site must prove the access lies inside the scratchpad object (r_ok / w_ok on the real 2 MiB extent),
   the value read is an uninterpreted function of the offset (the specification side reads the same
   abstract memory), a store is recorded in ghost variables.  That the real accessors are little-endian
   byte (de)compositions is enforced separately (suite C17, accessor obligations). */
#ifndef RXV_CONTRACTS_MEM_H
#define RXV_CONTRACTS_MEM_H
#include <stdint.h>
/* UF: abstract scratchpad content */
uint64_t __CPROVER_uninterpreted_mem64(__CPROVER_size_t);
uint32_t __CPROVER_uninterpreted_mem32(__CPROVER_size_t);
extern uint8_t* rxv_sp;                 /* ghost: base of the scratchpad object */
/* The scratchpad is represented by its base pointer and its extent (2 MiB, doc/specs.md 4.2): CBMC creates one SAT
   variable per bit of every object's content (16.8 M for a real 2 MiB object, ~2 GB per process), and the content is
   never read here.  In-bounds is therefore stated on offsets - the same fact r_ok/w_ok would check on a real object. */
#define RXV_SP_SIZE 2097152u
#define RXV_IN_SP(p, n) (__CPROVER_same_object((p), rxv_sp) && __CPROVER_POINTER_OFFSET(p) >= 0 && \
	(__CPROVER_size_t)__CPROVER_POINTER_OFFSET(p) + (n) <= RXV_SP_SIZE)
extern int rxv_store_count;             /* ghost: number of store64 calls */
extern __CPROVER_size_t rxv_store_off;  /* ghost: offset of the last store */
extern uint64_t rxv_store_val;          /* ghost: value of the last store */

/* reads of other objects (e.g. the E-mask words in ProgramConfiguration) return the object's content */
static uint64_t load64(const void* src)
__CPROVER_requires(__CPROVER_same_object(src, rxv_sp) ? RXV_IN_SP(src, 8) : __CPROVER_r_ok(src, 8))
__CPROVER_ensures(__CPROVER_same_object(src, rxv_sp)
	? __CPROVER_return_value == __CPROVER_uninterpreted_mem64(__CPROVER_POINTER_OFFSET(src))
	: __CPROVER_return_value == *(const uint64_t*)src)
__CPROVER_assigns();

static uint32_t load32(const void* src)
__CPROVER_requires(RXV_IN_SP(src, 4))
__CPROVER_ensures(__CPROVER_return_value == __CPROVER_uninterpreted_mem32(__CPROVER_POINTER_OFFSET(src)))
__CPROVER_assigns();

#ifdef RXV_STORE64_ANY_OBJECT
/* variant for callers that also store into ordinary objects (the VM's register file at the end of execute): a scratchpad
   store must lie inside the extent, any other store must be a valid 8-byte write and is in the frame */
static void store64(void* dst, uint64_t w)
__CPROVER_requires(__CPROVER_same_object(dst, rxv_sp) ? RXV_IN_SP(dst, 8) : __CPROVER_w_ok(dst, 8))
__CPROVER_ensures(1)
__CPROVER_assigns(!__CPROVER_same_object(dst, rxv_sp): __CPROVER_object_upto(dst, 8));
#else
static void store64(void* dst, uint64_t w)
__CPROVER_requires(RXV_IN_SP(dst, 8))
__CPROVER_ensures(rxv_store_count == __CPROVER_old(rxv_store_count) + 1)
__CPROVER_ensures(rxv_store_off == __CPROVER_POINTER_OFFSET(dst) && rxv_store_val == w)
__CPROVER_assigns(rxv_store_count, rxv_store_off, rxv_store_val);
#endif
#endif
