/* prototypes of the virtual-dispatch stand-ins used by the extracted hash driver */
void randomx_vm_initScratchpad(randomx_vm* m, void* seed);
void randomx_vm_run(randomx_vm* m, void* seed);
void randomx_vm_getFinalResult(randomx_vm* m, void* out, size_t outSize);
void randomx_vm_hashAndFill(randomx_vm* m, void* out, size_t outSize, uint64_t* fill_state);
void randomx_vm_resetRoundingMode(randomx_vm* m);
