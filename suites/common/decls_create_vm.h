/* prototypes of the construction / virtual-dispatch stand-ins used by the extracted randomx_create_vm */
randomx_vm* rxv_new_InterpretedLightVm(int alloc, int soft, randomx_flags f);
randomx_vm* rxv_new_InterpretedVm(int alloc, int soft, randomx_flags f);
randomx_vm* rxv_new_CompiledLightVm(int alloc, int soft, int secure, randomx_flags f);
randomx_vm* rxv_new_CompiledVm(int alloc, int soft, int secure, randomx_flags f);
void rxv_delete(randomx_vm* vm);
void randomx_vm_setCache(randomx_vm* vm, randomx_cache* c);
void randomx_vm_setDataset(randomx_vm* vm, randomx_dataset* d);
void randomx_vm_allocate(randomx_vm* vm);
_Bool randomx_cache_isInitialized(randomx_cache* c);
