/* Stream-level contracts of the Blake2b API, for callers of the hash (commitment, hash driver, Argon2 H0/H').
   Abstract view established by suite C11 on the real blake2b.c (update_contract / final_contract / init_*_contract
   plus induction over calls): a state accumulates a byte stream; the digest is the RFC 7693 function of
   (digest length, key, stream).  Ghost state describes ONE stream at a time:
     rxv_s_state 0 = not initialised, 1 = absorbing, 2 = finalised;  rxv_s_len = bytes absorbed so far;
     rxv_s_outlen = digest length parameter;  rxv_s_probe = arbitrary stream position (fixed by the proof),
     rxv_s_byte = stream byte at that position once absorbed.
   ASSUME: these contracts are implied by the framing contracts of suite C11 (meta-step: induction over update calls). */
#ifndef RXV_CONTRACTS_BLAKE2B_STREAM_H
#define RXV_CONTRACTS_BLAKE2B_STREAM_H
#include <stdint.h>
#include <stddef.h>
extern int rxv_s_state;
extern uint64_t rxv_s_len, rxv_s_probe;
extern size_t rxv_s_outlen;
extern uint8_t rxv_s_byte;
extern const void* rxv_s_out; extern size_t rxv_s_final_outlen;   /* where the digest went */
#define RXV_S_ASSIGNS rxv_s_state, rxv_s_len, rxv_s_outlen, rxv_s_byte, rxv_s_out, rxv_s_final_outlen

int randomx_blake2b_init(blake2b_state *S, size_t outlen)
__CPROVER_requires(__CPROVER_rw_ok(S, sizeof(*S)))
__CPROVER_assigns(__CPROVER_object_whole(S), RXV_S_ASSIGNS)
__CPROVER_ensures((outlen >= 1 && outlen <= 64) ? (__CPROVER_return_value == 0 && rxv_s_state == 1 && rxv_s_len == 0 && rxv_s_outlen == outlen)
	: (__CPROVER_return_value == -1 && rxv_s_state == 0));

int randomx_blake2b_update(blake2b_state *S, const void *in, size_t inlen)
__CPROVER_requires(__CPROVER_rw_ok(S, sizeof(*S)) && rxv_s_state == 1)
__CPROVER_requires(inlen == 0 || __CPROVER_r_ok(in, inlen))                 /* reads exactly [in, in + inlen) */
__CPROVER_assigns(__CPROVER_object_whole(S), rxv_s_len, rxv_s_byte)
__CPROVER_ensures(__CPROVER_return_value == 0 && rxv_s_len == __CPROVER_old(rxv_s_len) + inlen)
__CPROVER_ensures((rxv_s_probe >= __CPROVER_old(rxv_s_len) && rxv_s_probe < rxv_s_len)
	? rxv_s_byte == ((const uint8_t*)in)[rxv_s_probe - __CPROVER_old(rxv_s_len)] : rxv_s_byte == __CPROVER_old(rxv_s_byte));

int randomx_blake2b_final(blake2b_state *S, void *out, size_t outlen)
__CPROVER_requires(__CPROVER_rw_ok(S, sizeof(*S)) && rxv_s_state == 1)
__CPROVER_requires(outlen >= rxv_s_outlen && __CPROVER_w_ok(out, rxv_s_outlen))   /* writes exactly the digest length */
__CPROVER_assigns(__CPROVER_object_whole(S), __CPROVER_object_upto(out, rxv_s_outlen), rxv_s_state, rxv_s_out, rxv_s_final_outlen)
__CPROVER_ensures(__CPROVER_return_value == 0 && rxv_s_state == 2 && rxv_s_out == out && rxv_s_final_outlen == outlen);
#endif
