"""extraction recipes shared between suites"""
BM = {
    "main": "src/bytecode_machine.cpp",
    "keep": ["BytecodeMachine::*", "Instruction::get*", "Program::getSize", "Program::op_call", "isZeroOrPowerOf2",
             "signExtend2sCompl", "unsigned*ToSigned2sCompl", "rx_*"],
    "dealias_unions": ["InstructionByteCode"],
    "must_fire": {"anonymous union of pointers de-aliased": 2, "class->struct": 5, "enum class": 1, "reference use -> deref": 100, "member -> self->": 50},
}

RX_COMMIT = {
    "main": "src/randomx.cpp",
    "keep": ["randomx_calculate_commitment"],
    "must_fire": {"class->struct": 10},
}

X86 = {"portable": False, "sys_includes": ["x86intrin.h"]}
# size constants defined as differences of assembly symbol addresses are supplied by the measured header (rxv/asmsizes.py)
JIT_DROP_SIZES = r"^const\s+int32_t\s+\w+\s*=\s*code\w+\s*-\s*code\w+\s*;"
JIT_SIZES = {"asm_sizes": "src/jit_compiler_x86.cpp", "asm": "src/jit_compiler_x86_static.S", "out": "jit_sizes.h", "header": True}
JIT_PROT = dict(X86, main="src/jit_compiler_x86.cpp", drop_vars=["JitCompilerX86::engine", JIT_DROP_SIZES],
                keep=["JitCompilerX86::ctor", "JitCompilerX86::dtor", "JitCompilerX86::enableAll", "JitCompilerX86::enableWriting",
                      "JitCompilerX86::enableExecution"])
EXEC_REWRITE = [{"name": "call of generated code", "pattern": r"compiler\.getProgramFunc\(\)\(reg, mem, scratchpad, (\w+)\)",
                 "repl": r"rxv_execute_program(&compiler, &reg, &mem, scratchpad, \1)"}]
VM_COMPILED_LIGHT = dict(X86, main="src/vm_compiled_light.cpp", keep=["CompiledLightVm::setCache", "CompiledLightVm::run"],
                         flatten={"root": "randomx_vm", "concrete": "CompiledLightVm",
                                  "chain": ["randomx_vm", "VmBase", "CompiledVm", "CompiledLightVm"]},
                         pre_rewrites=EXEC_REWRITE, must_fire={"object method call": 5})
VM_COMPILED = dict(X86, main="src/vm_compiled.cpp", keep=["CompiledVm::ctor", "CompiledVm::run", "CompiledVm::execute", "CompiledVm::setDataset"],
                   flatten={"root": "randomx_vm", "concrete": "CompiledVm", "chain": ["randomx_vm", "VmBase", "CompiledVm"]},
                   pre_rewrites=EXEC_REWRITE, must_fire={"object method call": 4, "recipe rewrite: call of generated code": 1})

RX_CREATE_VM = {"main": "src/randomx.cpp", "keep": ["randomx_create_vm"],
                "must_fire": {"new of template-instantiation alias -> rxv_new_<Class>(template args, ctor args)": 24,
                              "alias of template instantiation recorded": 24}}
RX_CREATE_VM_EXC = dict(RX_CREATE_VM, exceptions={"may_throw": ["rxv_new_InterpretedLightVm", "rxv_new_InterpretedVm", "rxv_new_CompiledLightVm", "rxv_new_CompiledVm",
                                                                  "setCache", "setDataset", "allocate"]},
                        must_fire=dict(RX_CREATE_VM["must_fire"], **{"try/catch -> exception flow model": 1, "exception flow: exits from try block after may-throw calls": 27}))
CREATE_VM_OB = {
    "name": "create_vm_dispatch",
    "files": [{"cxx": RX_CREATE_VM, "out": "rx.c", "header": True}, "@suites/common/harness_create_vm.c"],
    "incdirs": ["@suites/common"], "entry": "h_create_vm", "defines": ['RXV_CONTRACTS_H="decls_create_vm.h"'],
    "expect_classes": ["assertion"], "expect_min": 8,
}

DATASET_COMPILE = dict(X86, main="src/dataset.cpp", keep=["initCacheCompile"], must_fire={"object method call": 4})

RX_INIT_DATASET = {"main": "src/randomx.cpp", "keep": ["randomx_init_dataset"],
                   "pre_rewrites": [{"name": "indirect call through the datasetInit field -> contract stub of the function type",
                                     "pattern": r"cache->datasetInit\(", "repl": "rxv_dataset_init("}],
                   "must_fire": {"recipe rewrite: indirect call through the datasetInit field -> contract stub of the function type": 4}}

DATASET_ITEM = {"main": "src/dataset.cpp", "keep": ["initDataset", "initDatasetItem", "getMixBlock", "SuperscalarProgram::getAddressRegister",
                                                    "SuperscalarProgram::getSize"],
                "pre_rewrites": [{"name": "cache read -> recording stub", "function": "initDatasetItem", "pattern": r"\bload64_native\(", "repl": "rxv_load64_native("}],
                "must_fire": {"recipe rewrite: cache read -> recording stub": 1}}

SOFT_AES = {"main": "src/soft_aes.cpp", "keep": ["soft_aesenc", "soft_aesdec", "rx_*"]}

AES_HASH = {"main": "src/aes_hash.cpp", "keep": ["fillAes1Rx4", "fillAes4Rx4", "hashAes1Rx4", "hashAndFillAes1Rx4", "aesenc", "aesdec", "rx_*"]}
# progress obligations (every size): the 16-byte accesses to the variable-size buffer - textually, the loads / stores through the
# running pointer - become accessor stand-ins with contracts (in extent, counted); all other loads / stores stay the real helpers
AES_HASH_PROGRESS = dict(AES_HASH, pre_rewrites=[
    {"name": "buffer load through the running pointer -> accessor stand-in", "pattern": r"rx_load_vec_i128\(\(rx_vec_i128\*\)(scratchpadPtr|inptr) \+ (\d)\)", "repl": r"rxv_buf_load(\1, \2)"},
    {"name": "buffer store through the running pointer -> accessor stand-in", "pattern": r"rx_store_vec_i128\(\(rx_vec_i128\*\)(scratchpadPtr|outptr) \+ (\d), ", "repl": r"rxv_buf_store(\1, \2, "}],
    must_fire={"recipe rewrite: buffer load through the running pointer -> accessor stand-in": 8, "recipe rewrite: buffer store through the running pointer -> accessor stand-in": 12})

RX_DRIVER = dict(X86, main="src/randomx.cpp", keep=["randomx_calculate_hash", "randomx_calculate_hash_first", "randomx_calculate_hash_next",
                                                    "randomx_calculate_hash_last", "randomx_vm::getRegisterFile"])
DRIVER_DECLS = "decls_driver.h"

VM_RESET = dict(X86, main="src/virtual_machine.cpp", keep=["randomx_vm::resetRoundingMode", "rx_reset_float_state", "rx_set_rounding_mode", "rx_get_rounding_mode"])

VM_INIT = {"main": "src/virtual_machine.cpp", "keep": ["randomx_vm::initialize", "getSmallPositiveFloatBits", "getStaticExponent", "getFloatMask", "Program::getEntropy"]}

STR_NE = [{"name": "std::string != -> abstract identity comparison", "pattern": r"machine->cacheKey != cache->cacheKey", "repl": "!rxv_string_eq(&machine->cacheKey, &cache->cacheKey)"}]
STR_CMP_STR = [{"name": "std::string::compare(pos, len, string) -> rxv_string_compare_str", "pattern": r"\b((?:\w+->)*cacheKey)\.compare\(([^,()]+),\s*([^,]+?),\s*((?:\w+->)*cacheKey)\)", "repl": r"rxv_string_compare_str(&\1, \2, \3, &\4)"},
               {"name": "std::string observers -> rxv_string observers", "pattern": r"\b((?:\w+->)*cacheKey)\.(size|length|data|c_str)\(\)", "repl": r"rxv_string_\2(&\1)"}]
RX_SET_CACHE = {"main": "src/randomx.cpp", "keep": ["randomx_vm_set_cache", "randomx_vm::getMemory", "randomx_vm::usesCache"], "pre_rewrites": STR_NE + STR_CMP_STR,
                "must_fire": {}}

VM_ALLOCATE = {"main": "src/virtual_machine.cpp", "keep": ["VmBase::allocate", "rx_load_vec_i128", "rx_store_vec_i128"],
               "flatten": {"root": "randomx_vm", "concrete": "VmBase", "chain": ["randomx_vm", "VmBase"]},
               "pre_rewrites": [{"name": "Allocator::allocMemory -> allocator stand-in", "pattern": r"Allocator::allocMemory\(", "repl": "rxv_Allocator_allocMemory("}],
               "must_fire": {"recipe rewrite: Allocator::allocMemory -> allocator stand-in": 1}}

VM_DTOR = {"main": "src/virtual_machine.cpp", "keep": ["VmBase::~VmBase", "VmBase::dtor"],
           "flatten": {"root": "randomx_vm", "concrete": "VmBase", "chain": ["randomx_vm", "VmBase"]},
           "pre_rewrites": [{"name": "Allocator::freeMemory -> allocator stand-in", "pattern": r"Allocator::freeMemory\(", "repl": "rxv_Allocator_freeMemory("}],
           "must_fire": {"recipe rewrite: Allocator::freeMemory -> allocator stand-in": 1}}

LP_ALLOC = {"main": "src/allocator.cpp", "keep": ["LargePageAllocator::allocMemory", "LargePageAllocator::freeMemory"]}

SS_SELECT = {'main': 'src/superscalar.cpp', 'keep': ['SuperscalarInstruction::selectDestination', 'SuperscalarInstruction::selectSource', 'selectRegister'], 'pre_rewrites': [{'name': 'std::vector<int> local -> fixed-capacity list', 'pattern': '\\b(static\\s+)?std::vector<int> (\\w+);', 'repl': '\\1rxv_ivec8 \\2 = { { 0 }, 0 };'}, {'name': 'vector push_back', 'pattern': '\\b(\\w+)\\.push_back\\(', 'repl': 'rxv_ivec8_push(&\\1, '}, {'name': 'vector clear', 'pattern': '\\b(\\w+)\\.clear\\(\\)', 'repl': 'rxv_ivec8_clear(&\\1)'}, {'name': 'vector size', 'pattern': '\\b(\\w+)\\.size\\(\\)', 'repl': 'rxv_ivec8_size(&\\1)'}, {'name': 'vector index', 'pattern': '\\bavailableRegisters\\[(\\w+)\\]', 'repl': 'rxv_ivec8_at(&availableRegisters, \\1)'}, {'name': 'instruction type query -> stand-in', 'pattern': 'info_->getType\\(\\)', 'repl': 'rxv_info_type(info_)'}, {'name': 'generator draw -> stand-in', 'pattern': 'gen\\.getUInt32\\(\\)', 'repl': 'rxv_gen_u32(&gen)'}], 'opaque_classes': ['MacroOp', 'SuperscalarInstructionInfo', 'DecoderBuffer', 'Blake2Generator'], 'drop_vars': ['SuperscalarInstruction::Null', 'SuperscalarInstruction_Null', '\\bslot_\\w+', 'buffer\\d', 'decodeBuffers?', '\\bNull\\b'], 'vector_as': {'int': 'rxv_ivec8'}}
SS_SELECT["must_fire"] = {"recipe rewrite: std::vector<int> local -> fixed-capacity list": 2, "recipe rewrite: vector push_back": 2}

DEALLOC_CACHE = {"main": "src/dataset.cpp", "keep": ["deallocCache"],
                 "pre_rewrites": [{"name": "Allocator::freeMemory -> allocator stand-in", "pattern": r"Allocator::freeMemory\(", "repl": "rxv_Allocator_freeMemory("}],
                 "must_fire": {"recipe rewrite: Allocator::freeMemory -> allocator stand-in": 1, "delete -> rxv_delete": 1}}
RX_ALLOC = {"main": "src/randomx.cpp", "keep": ["randomx_alloc_cache", "randomx_release_cache", "randomx_alloc_dataset", "randomx_release_dataset"],
            "not_methods": ["initialize", "dealloc"],
            "exceptions": {"may_throw": ["rxv_new_randomx_cache", "rxv_new_randomx_dataset", "rxv_new_JitCompiler", "rxv_DefaultAllocator_allocMemory", "rxv_LargePageAllocator_allocMemory"]},
            "pre_rewrites": [{"name": "numeric_limits<size_t>::max() -> SIZE_MAX", "pattern": r"std::numeric_limits(?:<[^>]*>)?::max\(\)", "repl": "SIZE_MAX"},
                             {"name": "allocator calls -> stand-ins", "pattern": r"randomx::(Default|LargePage)Allocator::allocMemory\(", "repl": r"rxv_\1Allocator_allocMemory("},
                             {"name": "dealloc instantiations -> stand-ins", "pattern": r"&randomx::dealloc(Cache|Dataset)<randomx::(Default|LargePage)Allocator>", "repl": r"&rxv_dealloc\1_\2"}],
            "must_fire": {"try/catch -> exception flow model": 2, "recipe rewrite: allocator calls -> stand-ins": 6, "recipe rewrite: dealloc instantiations -> stand-ins": 6,
                          "exception flow: exits from try block after may-throw calls": 9}}

SS_EXEC = {'main': 'src/superscalar.cpp', 'keep': ['executeSuperscalar', 'Instruction::getModShift', 'Instruction::getImm32', 'SuperscalarProgram::op_call', 'SuperscalarProgram::getSize', 'rotr', 'signExtend2sCompl'], 'opaque_classes': ['MacroOp', 'SuperscalarInstructionInfo', 'DecoderBuffer', 'Blake2Generator', 'SuperscalarInstruction', 'RegisterInfo'], 'vector_as': {'uint64_t': 'rxv_u64vec'}, 'drop_vars': ['SuperscalarInstruction::Null', 'SuperscalarInstruction_Null', '\\bslot_\\w+', 'buffer\\d', 'decodeBuffers?', '\\bNull\\b'], 'pre_rewrites': [{'name': 'reciprocal cache lookup -> vector stand-in', 'pattern': '\\(\\*reciprocals\\)\\[([^\\]]+)\\]', 'repl': 'rxv_u64vec_at(reciprocals, \\1)'}]}
SS_EXEC["pre_rewrites"].append({"name": "in-line 64-bit product -> RXV_MUL64", "pattern": r"r\[instr\.dst\] \*= ([^;]+);", "repl": r"r[instr.dst] = RXV_MUL64(r[instr.dst], \1);"})
SS_EXEC["must_fire"] = {"recipe rewrite: reciprocal cache lookup -> vector stand-in": 1, "recipe rewrite: in-line 64-bit product -> RXV_MUL64": 3}

VM_EXECUTE = {'main': 'src/vm_interpreted.cpp', 'keep': ['InterpretedVm::execute', 'BytecodeMachine::maskRegisterExponentMantissa', 'maskRegisterExponentMantissa', 'rx_*', 'randomx_vm::getFlags'], 'flatten': {'root': 'randomx_vm', 'concrete': 'InterpretedVm', 'chain': ['randomx_vm', 'VmBase', 'BytecodeMachine', 'InterpretedVm']}, 'pre_rewrites': [{'name': 'qualified base member -> member', 'pattern': 'randomx_vm::vmFlags', 'repl': 'vmFlags'}]}
VM_EXECUTE["must_fire"] = {"member shadowed by local (left alone)": 1}

SS_GENERATE = {'main': 'src/superscalar.cpp', 'keep': ['generateSuperscalar'], 'opaque_classes': ['Blake2Generator', 'MacroOp', 'SuperscalarInstructionInfo', 'DecoderBuffer'], 'drop_vars': ['\\bslot_\\w+', 'buffer\\d', 'decodeBuffers?', 'MacroOp::\\w+', 'MacroOp_\\w+', 'SuperscalarInstructionInfo::\\w+', 'DecoderBuffer::\\w+', '\\w+_ops_array', 'trace'], 'pre_rewrites': [{'name': 'trace output dropped', 'pattern': 'if \\(trace\\) std::cout.*?std::endl;', 'repl': ';'}, {'name': 'trace output dropped 2', 'pattern': 'if \\(trace\\) std::cout[^;\\n]*;', 'repl': ';'}, {'name': 'null instruction object', 'pattern': 'SuperscalarInstruction::Null', 'repl': 'rxv_null_instruction'}, {'name': 'default decoder buffer', 'pattern': '&DecoderBuffer::Default', 'repl': 'rxv_default_decoder_buffer'}, {'name': 'decoder: fetchNext', 'pattern': 'decodeBuffer->fetchNext\\(currentInstruction\\.getType\\(\\), decodeCycle, mulCount, gen\\)', 'repl': 'rxv_db_fetchNext(decodeBuffer, rxv_cur_type(&currentInstruction), decodeCycle, mulCount, &gen)'}, {'name': 'decoder: slot count', 'pattern': 'decodeBuffer->getSize\\(\\)', 'repl': 'rxv_db_size(decodeBuffer)'}, {'name': 'decoder: slot sizes', 'pattern': 'decodeBuffer->getCounts\\(\\)\\[bufferIndex\\]', 'repl': 'rxv_db_count(decodeBuffer, bufferIndex)'}, {'name': 'decoder: index', 'pattern': 'decodeBuffer->getIndex\\(\\)', 'repl': 'rxv_db_index(decodeBuffer)'}, {'name': 'instruction: macro-op count', 'pattern': 'currentInstruction\\.getInfo\\(\\)\\.getSize\\(\\)', 'repl': 'rxv_cur_size(&currentInstruction)'}, {'name': 'instruction: macro-op', 'pattern': 'currentInstruction\\.getInfo\\(\\)\\.getOp\\(macroOpIndex\\)', 'repl': '(*rxv_cur_op(&currentInstruction, macroOpIndex))'}, {'name': 'instruction: src op', 'pattern': 'currentInstruction\\.getInfo\\(\\)\\.getSrcOp\\(\\)', 'repl': 'rxv_cur_srcop(&currentInstruction)'}, {'name': 'instruction: dst op', 'pattern': 'currentInstruction\\.getInfo\\(\\)\\.getDstOp\\(\\)', 'repl': 'rxv_cur_dstop(&currentInstruction)'}, {'name': 'instruction: result op', 'pattern': 'currentInstruction\\.getInfo\\(\\)\\.getResultOp\\(\\)', 'repl': 'rxv_cur_resultop(&currentInstruction)'}, {'name': 'instruction: create', 'pattern': 'currentInstruction\\.createForSlot\\(gen, ', 'repl': 'rxv_cur_create(&currentInstruction, &gen, '}, {'name': 'instruction: select source', 'pattern': 'currentInstruction\\.selectSource\\(scheduleCycle, registers, gen\\)', 'repl': 'rxv_cur_select_src(&currentInstruction, scheduleCycle, registers, &gen)'}, {'name': 'instruction: select destination', 'pattern': 'currentInstruction\\.selectDestination\\(scheduleCycle, throwAwayCount > 0, registers, gen\\)', 'repl': 'rxv_cur_select_dst(&currentInstruction, scheduleCycle, throwAwayCount > 0, registers, &gen)'}, {'name': 'instruction: destination', 'pattern': 'currentInstruction\\.getDestination\\(\\)', 'repl': 'rxv_cur_dst(&currentInstruction)'}, {'name': 'instruction: group', 'pattern': 'currentInstruction\\.getGroup\\(\\)', 'repl': 'rxv_cur_group(&currentInstruction)'}, {'name': 'instruction: group par', 'pattern': 'currentInstruction\\.getGroupPar\\(\\)', 'repl': 'rxv_cur_grouppar(&currentInstruction)'}, {'name': 'instruction: type', 'pattern': 'currentInstruction\\.getType\\(\\)', 'repl': 'rxv_cur_type(&currentInstruction)'}, {'name': 'instruction: emit', 'pattern': 'currentInstruction\\.toInstr\\(prog\\(programSize\\+\\+\\)\\)', 'repl': 'rxv_cur_emit(&currentInstruction, &prog.programBuffer[programSize++])'}, {'name': 'macro-op: latency', 'pattern': 'mop\\.getLatency\\(\\)', 'repl': 'rxv_mop_latency(&mop)'}, {'name': 'macro-op: size', 'pattern': 'mop\\.getSize\\(\\)', 'repl': 'rxv_mop_size(&mop)'}, {'name': 'schedule probe', 'pattern': 'scheduleMop<false>\\(mop, ', 'repl': 'rxv_schedule_probe(&mop, '}, {'name': 'schedule commit', 'pattern': 'scheduleMop<true>\\(mop, ', 'repl': 'rxv_schedule_commit(&mop, '}, {'name': 'asic loop: instruction i', 'pattern': 'Instruction& instr = prog\\(i\\);', 'repl': 'Instruction& instr = (*rxv_emitted(&prog, i));'}, {'name': 'std::max', 'pattern': 'std::max\\(', 'repl': 'RXV_MAX('}, {'name': 'program setters', 'pattern': 'prog\\.setSize\\(programSize\\);', 'repl': 'prog.size = programSize;'}, {'name': 'program setters 2', 'pattern': 'prog\\.setAddressRegister\\(addressReg\\);', 'repl': 'prog.addrReg = addressReg;'}], 'global_rewrites': [{'name': 'ExecutionPort::type -> int', 'pattern': 'ExecutionPort::type', 'repl': 'int'}, {'name': 'ExecutionPort constants', 'pattern': 'ExecutionPort::(P\\w+|Null)', 'repl': 'ExecutionPort_\\1'}], 'must_fire': {'recipe rewrite: null instruction object': 1, 'recipe rewrite: default decoder buffer': 1, 'recipe rewrite: decoder: fetchNext': 1, 'recipe rewrite: decoder: slot count': 1, 'recipe rewrite: decoder: slot sizes': 1, 'recipe rewrite: decoder: index': 1, 'recipe rewrite: instruction: macro-op count': 1, 'recipe rewrite: instruction: macro-op': 1, 'recipe rewrite: instruction: src op': 1, 'recipe rewrite: instruction: dst op': 1, 'recipe rewrite: instruction: result op': 1, 'recipe rewrite: instruction: create': 1, 'recipe rewrite: instruction: select source': 1, 'recipe rewrite: instruction: select destination': 1, 'recipe rewrite: instruction: destination': 1, 'recipe rewrite: instruction: group': 1, 'recipe rewrite: instruction: group par': 1, 'recipe rewrite: instruction: type': 1, 'recipe rewrite: instruction: emit': 1, 'recipe rewrite: macro-op: latency': 1, 'recipe rewrite: macro-op: size': 1, 'recipe rewrite: schedule probe': 1, 'recipe rewrite: schedule commit': 1, 'recipe rewrite: asic loop: instruction i': 1, 'recipe rewrite: program setters': 1, 'recipe rewrite: program setters 2': 1}}

SS_CREATE = {'main': 'src/superscalar.cpp', 'keep': ['SuperscalarInstruction::create', 'SuperscalarInstruction::reset', 'isZeroOrPowerOf2'], 'opaque_classes': ['MacroOp', 'SuperscalarInstructionInfo', 'DecoderBuffer', 'Blake2Generator'], 'drop_vars': ['SuperscalarInstruction::Null', 'SuperscalarInstruction_Null', '\\bslot_\\w+', 'buffer\\d', 'decodeBuffers?', '\\bNull\\b'], 'pre_rewrites': [{'name': 'instruction type query -> stand-in', 'pattern': 'info->getType\\(\\)', 'repl': 'rxv_info_type(info)'}, {'name': 'generator byte -> stand-in', 'pattern': 'gen\\.getByte\\(\\)', 'repl': 'rxv_gen_u8(&gen)'}, {'name': 'generator draw -> stand-in', 'pattern': 'gen\\.getUInt32\\(\\)', 'repl': 'rxv_gen_u32(&gen)'}], 'must_fire': {'recipe rewrite: generator draw -> stand-in': 5, 'recipe rewrite: generator byte -> stand-in': 2, 'recipe rewrite: instruction type query -> stand-in': 1}}

SS_FETCH = {'main': 'src/superscalar.cpp', 'keep': ['DecoderBuffer::fetchNext', 'DecoderBuffer::fetchNextDefault'], 'opaque_classes': ['MacroOp', 'SuperscalarInstructionInfo', 'Blake2Generator', 'SuperscalarInstruction', 'RegisterInfo'], 'drop_vars': ['SuperscalarInstruction::Null', 'SuperscalarInstruction_Null', '\\bslot_\\w+', 'buffer\\d', 'DecoderBuffer::\\w+', 'DecoderBuffer_\\w+', '\\bNull\\b', 'decodeBuffers'], 'pre_rewrites': [{'name': 'generator byte -> stand-in', 'pattern': 'gen\\.getByte\\(\\)', 'repl': 'rxv_gen_u8(&gen)'}], 'source_must_match': [{'name': 'decodeBuffer484 is group 0 (4,8,4)', 'pattern': 'decodeBuffer484\\s*=\\s*DecoderBuffer\\(\\"4,8,4\\",\\s*0,\\s*buffer0\\)'}, {'name': 'buffer0 = {4, 8, 4}', 'pattern': 'buffer0\\[\\]\\s*=\\s*\\{\\s*4,\\s*8,\\s*4\\s*\\}'}, {'name': 'decodeBuffer7333 is group 1 (7,3,3,3)', 'pattern': 'decodeBuffer7333\\s*=\\s*DecoderBuffer\\(\\"7,3,3,3\\",\\s*1,\\s*buffer1\\)'}, {'name': 'buffer1 = {7, 3, 3, 3}', 'pattern': 'buffer1\\[\\]\\s*=\\s*\\{\\s*7,\\s*3,\\s*3,\\s*3\\s*\\}'}, {'name': 'decodeBuffer3733 is group 2 (3,7,3,3)', 'pattern': 'decodeBuffer3733\\s*=\\s*DecoderBuffer\\(\\"3,7,3,3\\",\\s*2,\\s*buffer2\\)'}, {'name': 'buffer2 = {3, 7, 3, 3}', 'pattern': 'buffer2\\[\\]\\s*=\\s*\\{\\s*3,\\s*7,\\s*3,\\s*3\\s*\\}'}, {'name': 'decodeBuffer493 is group 3 (4,9,3)', 'pattern': 'decodeBuffer493\\s*=\\s*DecoderBuffer\\(\\"4,9,3\\",\\s*3,\\s*buffer3\\)'}, {'name': 'buffer3 = {4, 9, 3}', 'pattern': 'buffer3\\[\\]\\s*=\\s*\\{\\s*4,\\s*9,\\s*3\\s*\\}'}, {'name': 'decodeBuffer4444 is group 4 (4,4,4,4)', 'pattern': 'decodeBuffer4444\\s*=\\s*DecoderBuffer\\(\\"4,4,4,4\\",\\s*4,\\s*buffer4\\)'}, {'name': 'buffer4 = {4, 4, 4, 4}', 'pattern': 'buffer4\\[\\]\\s*=\\s*\\{\\s*4,\\s*4,\\s*4,\\s*4\\s*\\}'}, {'name': 'decodeBuffer3310 is group 5 (3,3,10)', 'pattern': 'decodeBuffer3310\\s*=\\s*DecoderBuffer\\(\\"3,3,10\\",\\s*5,\\s*buffer5\\)'}, {'name': 'buffer5 = {3, 3, 10}', 'pattern': 'buffer5\\[\\]\\s*=\\s*\\{\\s*3,\\s*3,\\s*10\\s*\\}'}, {'name': 'default groups 0-3 in order', 'pattern': 'decodeBuffers\\[4\\]\\s*=\\s*\\{\\s*&DecoderBuffer::decodeBuffer484,\\s*&DecoderBuffer::decodeBuffer7333,\\s*&DecoderBuffer::decodeBuffer3733,\\s*&DecoderBuffer::decodeBuffer493,?\\s*\\}'}], 'must_fire': {'recipe rewrite: generator byte -> stand-in': 2}}

SS_CREATE_FOR_SLOT = {'main': 'src/superscalar.cpp', 'keep': ['SuperscalarInstruction::createForSlot'], 'opaque_classes': ['MacroOp', 'SuperscalarInstructionInfo', 'DecoderBuffer', 'Blake2Generator'], 'drop_vars': ['SuperscalarInstruction::Null', 'SuperscalarInstruction_Null', '\\bslot_\\w+', 'buffer\\d', 'decodeBuffers?', '\\bNull\\b'], 'pre_rewrites': [{'name': 'generator byte -> stand-in', 'pattern': 'gen\\.getByte\\(\\)', 'repl': 'rxv_gen_u8(&gen)'}, {'name': 'create -> stand-in', 'pattern': '\\bcreate\\(([^;]*), gen\\);', 'repl': 'rxv_create(this, \\1, &gen);'}, {'name': 'IMUL_R info object', 'pattern': '&SuperscalarInstructionInfo::IMUL_R', 'repl': 'rxv_info_IMUL_R'}], 'source_must_match': [{'name': 'slot_3 = {ISUB_R, IXOR_R}', 'pattern': 'slot_3\\[\\]\\s*=\\s*\\{\\s*&SuperscalarInstructionInfo::ISUB_R,\\s*&SuperscalarInstructionInfo::IXOR_R\\s*\\}'}, {'name': 'slot_3L = {ISUB_R, IXOR_R, IMULH_R, ISMULH_R}', 'pattern': 'slot_3L\\[\\]\\s*=\\s*\\{\\s*&SuperscalarInstructionInfo::ISUB_R,\\s*&SuperscalarInstructionInfo::IXOR_R,\\s*&SuperscalarInstructionInfo::IMULH_R,\\s*&SuperscalarInstructionInfo::ISMULH_R\\s*\\}'}, {'name': 'slot_4 = {IROR_C, IADD_RS}', 'pattern': 'slot_4\\[\\]\\s*=\\s*\\{\\s*&SuperscalarInstructionInfo::IROR_C,\\s*&SuperscalarInstructionInfo::IADD_RS\\s*\\}'}, {'name': 'slot_7 = {IXOR_C7, IADD_C7}', 'pattern': 'slot_7\\[\\]\\s*=\\s*\\{\\s*&SuperscalarInstructionInfo::IXOR_C7,\\s*&SuperscalarInstructionInfo::IADD_C7\\s*\\}'}, {'name': 'slot_8 = {IXOR_C8, IADD_C8}', 'pattern': 'slot_8\\[\\]\\s*=\\s*\\{\\s*&SuperscalarInstructionInfo::IXOR_C8,\\s*&SuperscalarInstructionInfo::IADD_C8\\s*\\}'}, {'name': 'slot_9 = {IXOR_C9, IADD_C9}', 'pattern': 'slot_9\\[\\]\\s*=\\s*\\{\\s*&SuperscalarInstructionInfo::IXOR_C9,\\s*&SuperscalarInstructionInfo::IADD_C9\\s*\\}'}, {'name': 'slot_10 = IMUL_RCP', 'pattern': 'slot_10\\s*=\\s*&SuperscalarInstructionInfo::IMUL_RCP'}], 'must_fire': {'recipe rewrite: create -> stand-in': 8, 'recipe rewrite: generator byte -> stand-in': 6}}

SS_SCHEDULE_UOP = {'main': 'src/superscalar.cpp', 'keep': ['scheduleUop'], 'opaque_classes': ['MacroOp', 'SuperscalarInstructionInfo', 'DecoderBuffer', 'Blake2Generator', 'SuperscalarInstruction', 'RegisterInfo'], 'drop_vars': ['SuperscalarInstruction::Null', 'SuperscalarInstruction_Null', '\\bslot_\\w+', 'buffer\\d', 'decodeBuffers?', '\\bNull\\b', 'DecoderBuffer::\\w+', 'trace'], 'global_rewrites': [{'name': '2-D array reference parameter -> array parameter', 'pattern': 'ExecutionPort::type\\(&portBusy\\)\\[CYCLE_MAP_SIZE\\]\\[3\\]', 'repl': 'int portBusy[CYCLE_MAP_SIZE][3]'}, {'name': 'ExecutionPort::type -> int', 'pattern': 'ExecutionPort::type', 'repl': 'int'}, {'name': 'ExecutionPort constants', 'pattern': 'ExecutionPort::(P\\w+|Null)', 'repl': 'ExecutionPort_\\1'}], 'pre_rewrites': [{'name': 'trace output dropped', 'pattern': 'if \\(trace\\) std::cout.*?std::endl;', 'repl': ';'}], 'defines': ['commit=RXV_COMMIT']}

SS_SCHEDULE_MOP = {'main': 'src/superscalar.cpp', 'keep': ['scheduleMop'], 'opaque_classes': ['MacroOp', 'SuperscalarInstructionInfo', 'DecoderBuffer', 'Blake2Generator', 'SuperscalarInstruction', 'RegisterInfo'], 'drop_vars': ['SuperscalarInstruction::Null', 'SuperscalarInstruction_Null', '\\bslot_\\w+', 'buffer\\d', 'decodeBuffers?', '\\bNull\\b', 'DecoderBuffer::\\w+', 'trace'], 'defines': ['commit=RXV_COMMIT'], 'global_rewrites': [{'name': '2-D array reference parameter -> array parameter', 'pattern': 'ExecutionPort::type\\(&portBusy\\)\\[CYCLE_MAP_SIZE\\]\\[3\\]', 'repl': 'int portBusy[CYCLE_MAP_SIZE][3]'}, {'name': 'ExecutionPort::type -> int', 'pattern': 'ExecutionPort::type', 'repl': 'int'}, {'name': 'ExecutionPort constants', 'pattern': 'ExecutionPort::(P\\w+|Null)', 'repl': 'ExecutionPort_\\1'}], 'pre_rewrites': [{'name': 'trace output dropped', 'pattern': 'if \\(trace\\) std::cout.*?std::endl;', 'repl': ';'}, {'name': 'probe of one micro-op', 'pattern': 'scheduleUop<false>\\(', 'repl': 'rxv_uop_probe('}, {'name': 'commit of one micro-op', 'pattern': 'scheduleUop<true>\\(', 'repl': 'rxv_uop_commit('}, {'name': 'probe or commit by template parameter', 'pattern': 'scheduleUop<RXV_COMMIT>\\(', 'repl': 'rxv_uop_by_mode('}, {'name': 'macro-op attribute: dependent', 'pattern': 'mop\\.isDependent\\(\\)', 'repl': 'rxv_mop_dependent(&mop)'}, {'name': 'macro-op attribute: eliminated', 'pattern': 'mop\\.isEliminated\\(\\)', 'repl': 'rxv_mop_eliminated(&mop)'}, {'name': 'macro-op attribute: simple', 'pattern': 'mop\\.isSimple\\(\\)', 'repl': 'rxv_mop_simple(&mop)'}, {'name': 'macro-op attribute: uop1', 'pattern': 'mop\\.getUop1\\(\\)', 'repl': 'rxv_mop_uop1(&mop)'}, {'name': 'macro-op attribute: uop2', 'pattern': 'mop\\.getUop2\\(\\)', 'repl': 'rxv_mop_uop2(&mop)'}, {'name': 'std::max', 'pattern': 'std::max\\(', 'repl': 'RXV_MAX('}], 'must_fire': {'recipe rewrite: probe of one micro-op': 2, 'recipe rewrite: commit of one micro-op': 2, 'recipe rewrite: probe or commit by template parameter': 1}}

# randomx_init_cache: std::string operations -> the abstract string model of the extractor prelude
STR_OPS = [{"name": "local std::string -> rxv_string", "pattern": r"\bstd::string (\w+);", "repl": r"rxv_string \1 = { 0, 0, 0 };"},
           {"name": "std::string::assign -> rxv_string_assign", "pattern": r"\b(\w+(?:->\w+)*)\.assign\(", "repl": r"rxv_string_assign(&\1, "},
           {"name": "std::string::compare -> rxv_string_compare", "pattern": r"\b(\w+(?:->\w+)*)\.compare\(", "repl": r"rxv_string_compare(&\1, "},
           {"name": "std::string observers -> rxv_string observers", "pattern": r"\b((?:\w+->)*cacheKey)\.(size|length|data|c_str)\(\)", "repl": r"rxv_string_\2(&\1)"},
           {"name": "std::string != -> abstract identity comparison", "pattern": r"cache->cacheKey != cacheKey", "repl": "!rxv_string_eq(&cache->cacheKey, &cacheKey)"}]
RX_INIT_CACHE = {"main": "src/randomx.cpp", "keep": ["randomx_init_cache"], "pre_rewrites": STR_OPS,
                 "not_methods": ["initialize", "dealloc"], "must_fire": {}}

VM_INTERP_LIGHT = {"main": "src/vm_interpreted_light.cpp", "keep": ["InterpretedLightVm::datasetRead", "InterpretedLightVm::setCache"],
                   "flatten": {"root": "randomx_vm", "concrete": "InterpretedLightVm",
                               "chain": ["randomx_vm", "VmBase", "BytecodeMachine", "InterpretedVm", "InterpretedLightVm"]}}
VM_INTERP = {"main": "src/vm_interpreted.cpp", "keep": ["InterpretedVm::datasetRead", "InterpretedVm::setDataset"],
             "flatten": {"root": "randomx_vm", "concrete": "InterpretedVm", "chain": ["randomx_vm", "VmBase", "BytecodeMachine", "InterpretedVm"]},
             "pre_rewrites": [{"name": "dataset word read -> abstract dataset content", "function": "InterpretedVm_datasetRead",
                               "pattern": r"datasetLine\[i\]", "repl": "rxv_dataset_word(datasetLine + i)"}],
             "must_fire": {"recipe rewrite: dataset word read -> abstract dataset content": 1}}
AES_DISPATCH = {"main": "src/aes_hash.cpp", "keep": ["aesenc", "aesdec", "rx_*"],
                "pre_rewrites": [{"name": "hardware AES arm -> contract stand-in", "pattern": r"rx_aes(enc|dec)_vec_i128\(", "repl": r"rxv_hard_aes\1("}],
                "must_fire": {"recipe rewrite: hardware AES arm -> contract stand-in": 2}}

JIT_EMIT = dict(X86, main="src/jit_compiler_x86.cpp",
    keep=["JitCompilerX86::h_*", "JitCompilerX86::genAddress*", "JitCompilerX86::genSIB", "JitCompilerX86::emit*", "Instruction::get*", "isZeroOrPowerOf2"],
    drop_vars=["JitCompilerX86::engine", JIT_DROP_SIZES],
    pre_rewrites=[{"name": "emit(array) -> emit(array, sizeof array)", "pattern": r"\bemit\((\w+)\);", "repl": r"emit(\1, sizeof(\1));"},
                  {"name": "instructionOffsets[] -> bounds-checked vector read", "pattern": r"instructionOffsets\[(\w+)\]", "repl": r"rxv_vec_at_i32(instructionOffsets, \1)"}],
    must_fire={"recipe rewrite: emit(array) -> emit(array, sizeof array)": 60, "recipe rewrite: instructionOffsets[] -> bounds-checked vector read": 1})

PORTABLE = {"main": "src/instructions_portable.cpp",
            "keep": ["mulh", "smulh", "rotr", "rotl", "setRoundMode_", "rx_*", "unsigned*ToSigned2sCompl", "signExtend2sCompl", "loadDoublePortable"]}
PORTABLE_MULH = dict(PORTABLE, pre_rewrites=[
    {"name": "partial product al*bl -> abstract x00", "function": "mulh", "pattern": r"al \* bl", "repl": "rxv_x00"},
    {"name": "partial product al*bh -> abstract x01", "function": "mulh", "pattern": r"al \* bh", "repl": "rxv_x01"},
    {"name": "partial product ah*bl -> abstract x10", "function": "mulh", "pattern": r"ah \* bl", "repl": "rxv_x10"},
    {"name": "partial product ah*bh -> abstract x11", "function": "mulh", "pattern": r"ah \* bh", "repl": "rxv_x11"}],
    must_fire={"recipe rewrite: partial product al*bl -> abstract x00": 1, "recipe rewrite: partial product al*bh -> abstract x01": 1,
               "recipe rewrite: partial product ah*bl -> abstract x10": 1, "recipe rewrite: partial product ah*bh -> abstract x11": 1})
PORTABLE_SMULH = dict(PORTABLE, pre_rewrites=[{"name": "mulh call in smulh -> abstract unsigned high word", "function": "smulh",
                                               "pattern": r"mulh\(a, b\)", "repl": "rxv_mulh_result"}],
                      must_fire={"recipe rewrite: mulh call in smulh -> abstract unsigned high word": 1})

# IMUL_RCP emits either nothing or 14 bytes depending on the immediate: a symbolic layout makes the byte decoder explode.
# The branch condition is wrapped: the harness fixes the case by an assumption on imm32, ASSERTS that the real condition has the
# expected value, and continues with that constant (sound case split, both cases are obligations).
JIT_EMIT_RCP = dict(JIT_EMIT, pre_rewrites=JIT_EMIT["pre_rewrites"] + [
    {"name": "IMUL_RCP branch condition specialised by asserted constant", "function": "JitCompilerX86_h_IMUL_RCP",
     "pattern": r"if \(!isZeroOrPowerOf2\(divisor\)\)", "repl": "if (RXV_RCP_COND(!isZeroOrPowerOf2(divisor)))"}],
    must_fire=dict(JIT_EMIT["must_fire"], **{"recipe rewrite: IMUL_RCP branch condition specialised by asserted constant": 1}))

JIT_LAYOUT = dict(X86, main="src/jit_compiler_x86.cpp",
    keep=["JitCompilerX86::generateProgram", "JitCompilerX86::generateProgramLight", "JitCompilerX86::generateProgramPrologue",
          "JitCompilerX86::generateProgramEpilogue", "JitCompilerX86::emit*", "Program::getSize", "Program::op_call"],
    drop_vars=["JitCompilerX86::engine", JIT_DROP_SIZES],
    pre_rewrites=[{"name": "emit(array) -> emit(array, sizeof array)", "pattern": r"\bemit\((\w+)\);", "repl": r"emit(\1, sizeof(\1));"},
                  {"name": "instructionOffsets.clear()", "pattern": r"instructionOffsets\.clear\(\);", "repl": "rxv_vec_clear(&instructionOffsets);"},
                  {"name": "prefetch blob size", "pattern": r"\(\(uint8_t\*\)&randomx_prefetch_scratchpad_end\) - \(\(uint8_t\*\)&randomx_prefetch_scratchpad\)", "repl": "prefetchScratchpadSize"},
                  {"name": "prefetch blob", "pattern": r"\(\(uint8_t\*\)&randomx_prefetch_scratchpad\)", "repl": "codePrefetchScratchpad"}],
    must_fire={"recipe rewrite: prefetch blob size": 1, "recipe rewrite: instructionOffsets.clear()": 1},
    # the harness memcpy stub checks destinations but does not model the copied bytes: sound only while the generator never
    # reads the code buffer back
    only_uses=[{"name": "code buffer is write-only in the generator", "token": r"self->code\b(?!Pos)",
                "allowed": [r"memcpy\(self->code \+ self->codePos(?: - 48)?,", r"self->code\[self->codePos\] = "], "min": 8}])

# the library's translation units (CMakeLists.txt randomx_sources + the x86 JIT), for native replays that need their own flags
LIB_SOURCES = ["src/aes_hash.cpp", "src/argon2_ref.c", "src/argon2_ssse3.c", "src/argon2_avx2.c", "src/bytecode_machine.cpp", "src/cpu.cpp",
               "src/dataset.cpp", "src/soft_aes.cpp", "src/virtual_memory.c", "src/vm_interpreted.cpp", "src/allocator.cpp",
               "src/assembly_generator_x86.cpp", "src/instruction.cpp", "src/randomx.cpp", "src/superscalar.cpp", "src/vm_compiled.cpp",
               "src/vm_interpreted_light.cpp", "src/argon2_core.c", "src/blake2_generator.cpp", "src/instructions_portable.cpp",
               "src/reciprocal.c", "src/virtual_machine.cpp", "src/vm_compiled_light.cpp", "src/blake2/blake2b.c",
               "src/jit_compiler_x86.cpp", "src/jit_compiler_x86_static.S"]
