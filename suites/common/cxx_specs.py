"""extraction recipes shared between suites"""
BM = {
    "main": "src/bytecode_machine.cpp",
    "keep": ["BytecodeMachine::*", "Instruction::get*", "Program::getSize", "Program::op_call", "isZeroOrPowerOf2",
             "signExtend2sCompl", "unsigned*ToSigned2sCompl", "rx_*"],
    "must_fire": {"class->struct": 5, "enum class": 1, "reference use -> deref": 100, "member -> self->": 50},
}
