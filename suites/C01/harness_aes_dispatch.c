/* C01-2: aesenc<soft> / aesdec<soft> (soft_aes.h, extracted with the template parameter as macro `soft`): whichever arm
   is selected receives (in, key) in the same order, so two implementations that satisfy the same round contract (soft:
   proved in C12; hardware: assumed) give the same result. */
#include "ah.c"
uint64_t __CPROVER_uninterpreted_rnd(int dec, uint64_t a, uint64_t b, uint64_t c, uint64_t d, int half);
#define ROUND_BODY(dec) rx_vec_i128 o; o.u64[0] = __CPROVER_uninterpreted_rnd(dec, in.u64[0], in.u64[1], key.u64[0], key.u64[1], 0); \
	o.u64[1] = __CPROVER_uninterpreted_rnd(dec, in.u64[0], in.u64[1], key.u64[0], key.u64[1], 1); return o;
rx_vec_i128 soft_aesenc(rx_vec_i128 in, rx_vec_i128 key) { ROUND_BODY(0) }
rx_vec_i128 soft_aesdec(rx_vec_i128 in, rx_vec_i128 key) { ROUND_BODY(1) }
rx_vec_i128 rxv_hard_aesenc(rx_vec_i128 in, rx_vec_i128 key) { ROUND_BODY(0) }
rx_vec_i128 rxv_hard_aesdec(rx_vec_i128 in, rx_vec_i128 key) { ROUND_BODY(1) }
uint64_t nondet_u64(void);
void h_aes_dispatch(void) {
	rx_vec_i128 in, key; in.u64[0] = nondet_u64(); in.u64[1] = nondet_u64(); key.u64[0] = nondet_u64(); key.u64[1] = nondet_u64();
	rx_vec_i128 e = aesenc(in, key), d = aesdec(in, key);
	__CPROVER_assert(e.u64[0] == __CPROVER_uninterpreted_rnd(0, in.u64[0], in.u64[1], key.u64[0], key.u64[1], 0) && e.u64[1] == __CPROVER_uninterpreted_rnd(0, in.u64[0], in.u64[1], key.u64[0], key.u64[1], 1), "aesenc<soft>(in, key) is the encryption round of (in, key) on the selected arm");
	__CPROVER_assert(d.u64[0] == __CPROVER_uninterpreted_rnd(1, in.u64[0], in.u64[1], key.u64[0], key.u64[1], 0) && d.u64[1] == __CPROVER_uninterpreted_rnd(1, in.u64[0], in.u64[1], key.u64[0], key.u64[1], 1), "aesdec<soft>(in, key) is the decryption round of (in, key) on the selected arm");
	__CPROVER_assert(0, "canary");
}
