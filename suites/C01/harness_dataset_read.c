/* C01-1: the two dataset-read sites compute the same thing.
   LIGHT=1: InterpretedLightVm::datasetRead derives item address/64 from the cache (initDatasetItem, contract stub: the
            item's words are an uninterpreted function of (cache, item number, word)).
   LIGHT=0: InterpretedVm::datasetRead reads 8 words at mem.memory + address; the dataset holds, for every item i,
            item(cache, i) at offset 64 i (postcondition of dataset initialisation, suite C08) - the memory words are the
            same uninterpreted function of the offset (extraction rule routes the reads through rxv_dataset_word).
   Both must leave r[q] ^= item(address / 64)[q] for every 64-byte aligned address inside the dataset. */
#include "vm.c"
uint64_t __CPROVER_uninterpreted_item_word(const void* cache, uint64_t item, unsigned word);
static randomx_cache the_cache; static uint8_t ds_base[8];
#define SPEC_DATASET_BYTES (2147483648ULL + 33554368ULL)
void initDatasetItem(randomx_cache* cache, uint8_t* out, uint64_t itemNumber) {
	__CPROVER_assert(cache == &the_cache, "items are derived from the cache the VM is bound to");
	__CPROVER_assert(itemNumber < SPEC_DATASET_BYTES / 64, "item number inside the dataset");
	for (int k = 0; k < 8; k++) ((uint64_t*)out)[k] = __CPROVER_uninterpreted_item_word(cache, itemNumber, k);
}
uint64_t rxv_dataset_word(const uint64_t* p) {
	__CPROVER_assert(__CPROVER_same_object(p, ds_base) && __CPROVER_POINTER_OFFSET(p) >= 0
		&& (uint64_t)__CPROVER_POINTER_OFFSET(p) + 8 <= SPEC_DATASET_BYTES, "dataset read inside [dataset, dataset + size)");
	uint64_t off = (uint64_t)__CPROVER_POINTER_OFFSET(p);
	return __CPROVER_uninterpreted_item_word(&the_cache, off / 64, (unsigned)((off % 64) / 8));   /* C08 postcondition */
}
uint64_t nondet_u64(void);
void h_dataset_read(void) {
	static struct randomx_vm vm;
	uint64_t r[8], r0[8];
	for (int k = 0; k < 8; k++) { r[k] = nondet_u64(); r0[k] = r[k]; }
	uint64_t address = nondet_u64();
	/* addresses the execution loop produces: datasetOffset + (ma & CacheLineAlignMask), see C02-1 / C06 */
	__CPROVER_assume(address % 64 == 0 && address <= SPEC_DATASET_BYTES - 64);
#if LIGHT
	vm.cachePtr = &the_cache;
	InterpretedLightVm_datasetRead(&vm, address, r);
#else
	vm.mem.memory = ds_base;
	InterpretedVm_datasetRead(&vm, address, r);
#endif
	for (int k = 0; k < 8; k++)
		__CPROVER_assert(r[k] == (r0[k] ^ __CPROVER_uninterpreted_item_word(&the_cache, address / 64, k)), "r[k] ^= item(address / 64)[k]");
	__CPROVER_assert(0, "canary");
}
