void initDatasetItem(randomx_cache* cache, uint8_t* out, uint64_t itemNumber);
uint64_t rxv_dataset_word(const uint64_t* p);
