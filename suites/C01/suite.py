import os, sys
sys.path.insert(0, os.path.join(os.path.dirname(os.path.abspath(__file__)), "..", "common"))
import cxx_specs as XS
from imports import imported

PROPERTY = "C01"
LEVEL = "proof"
EXPLANATION = ("Proof, per dispatch and read site, that every VM configuration funnels into code proved equal elsewhere: create_vm's flag dispatch constructs exactly the class the flags name; the light and full dataset reads fetch the item the specification names (light: computed from the cache, full: read at datasetOffset + masked ma); the soft/hard AES dispatch calls the selected primitive; the interpreter decodes every instruction word as specified and the x86 emitter agrees with it on the cases engines most easily disagree on (IMUL_RCP no-op rule, ISTORE). Whole-hash equality of two configurations is the composition of these facts with C04/C05/C08/C10/C12 and is not a single obligation.")
TRUSTED = ["hand-written x86 assembly (jit_compiler_x86_static.S, asm/*.inc): dataset read, AES store, compiled dataset initialiser",
           "composition of the per-site equivalences into equality of two whole hashes (meta-step)",
           "imported verdicts: C04 (JIT == interpreter per instruction), C08 (dataset items), C10 (Argon2 fill), C12 (AES round)"]
ASSUMPTIONS = []
NOT_DECIDED = ["end-to-end equality of two executions of the whole hash"]
INC = ["@suites/common"]

OBLIGATIONS = [
    {"name": "dataset_read_%s" % ("light" if light else "full"),
     "files": [{"cxx": (XS.VM_INTERP_LIGHT if light else XS.VM_INTERP), "out": "vm.c", "header": True}, "harness_dataset_read.c"],
     "incdirs": INC, "defines": ['RXV_CONTRACTS_H="decls_dataset_read.h"', "LIGHT=%d" % light, "softAes=1"], "entry": "h_dataset_read",
     "unwind": 9, "checks": ["--bounds-check", "--pointer-check", "--div-by-zero-check", "--undefined-shift-check", "--signed-overflow-check"],
     "expect_classes": ["assertion"], "expect_min": 3}
    for light in (1, 0)
] + [
    {"name": "aes_dispatch_soft%d" % s, "files": [{"cxx": XS.AES_DISPATCH, "out": "ah.c", "header": True}, "harness_aes_dispatch.c"],
     "incdirs": INC, "defines": ["soft=%d" % s, "softAes=%d" % s, 'RXV_CONTRACTS_H="decls_aes_dispatch.h"'], "entry": "h_aes_dispatch",
     "expect_classes": ["assertion"], "expect_min": 2}
    for s in (1, 0)
] + [dict(XS.CREATE_VM_OB, name="create_vm_flag_dispatch"),
     # the two engines decode the same instruction from the same word, and the JIT emits what the interpreter decodes, for the case
     # the engines most easily disagree on (IMUL_RCP no-op rule); the complete per-instruction sets are the checks of C05 / C04
     imported("C05", "decode_contract", "interpreter_decodes_every_instruction_word_as_specified"),
     imported("C04", "jit_IMUL_RCP_dst3_noop", "jit_and_interpreter_agree_on_IMUL_RCP_noop"),
     imported("C04", "jit_IMUL_RCP_dst3_multiply", "jit_and_interpreter_agree_on_IMUL_RCP_multiply"),
     imported("C04", "jit_ISTORE", "jit_and_interpreter_agree_on_ISTORE"),
     # a compiled light VM holds generated SuperscalarHash code, an interpreted one reads the cache's programs: they agree after
     # re-keying only if set_cache re-binds (recompiles) whenever the cache content changed
     imported("C03", "set_cache_rebinds_for_every_history", "compiled_and_interpreted_light_vm_rebind_whenever_the_cache_changed")]
