import importlib.util, os
_sp = importlib.util.spec_from_file_location("c05suite", os.path.join(os.path.dirname(os.path.abspath(__file__)), "..", "C05", "suite.py"))
_c05 = importlib.util.module_from_spec(_sp); _sp.loader.exec_module(_c05)


def _from_c05(name, newname):
    o = dict([x for x in _c05.OBLIGATIONS if x["name"] == name][0])
    o["name"] = newname
    o["files"] = [f if not isinstance(f, str) or f.startswith("@") else "@suites/C05/" + f for f in o["files"]]
    if o.get("replay"):
        r = dict(o["replay"]); r["prog"] = "@suites/C05/" + r["prog"]; o["replay"] = r
    return o


PROPERTY = "C18"
LEVEL = "proof"
EXPLANATION = ("Contract on the unmodified src/reciprocal.c (merged via -include): defined behaviour, empty frame and "
               "result >= 2^63 for every admissible divisor, discharged by CBMC.  Exact quotient: not dischargeable with "
               "the installed back ends; covered by native enumeration (thorough: all 2^32 divisors), labelled as a "
               "stand-in and not counted as discharged.")
TRUSTED = [
    "randomx_reciprocal_fast is hand-written assembly (asm/randomx_reciprocal.inc): covered only by the native enumeration",
    "CBMC's bit-precise semantics of /, %, <<, __builtin_clzll",
]
ASSUMPTIONS = [
    "exact quotient result == floor(2^(63+bitlength(d))/d): native enumeration (exhaustive in thorough tier, sampled in quick), not deductive",
]
NOT_DECIDED = ["deductive proof of the exact quotient (all five back ends time out at 300 s, DESIGN section 2)"]

OBLIGATIONS = [
    {
        "name": "reciprocal_contract",
        "tier": "quick",
        "files": ["@repo/src/reciprocal.c", "harness_reciprocal.c"],
        "includes": ["contracts_reciprocal.h"],
        "entry": "h_reciprocal",
        "enforce": "randomx_reciprocal",
        "expect_classes": ["postcondition", "division-by-zero", "undefined-shift"],
        "expect_min": 8,
        "replay": {"prog": "replay_reciprocal.c", "sources": ["src/reciprocal.c", "src/jit_compiler_x86_static.S"], "vars": ["d"]},
    },
    {
        "name": "reciprocal_enumeration_quick",
        "tier": "quick",
        "kind": "native",
        "bounded": "native enumeration: all divisors < 2^20, 2^k +- 3, top 4096, and a ~2^22-point stride",
        "native": {"prog": "native_reciprocal.c", "sources": ["src/reciprocal.c", "src/jit_compiler_x86_static.S"], "args": ["quick", "{seed}"]},
    },
    {
        "name": "reciprocal_enumeration_full",
        "tier": "thorough",
        "kind": "native",
        "bounded": "native enumeration of all 2^32 divisors (exhaustive, not deductive)",
        "native": {"prog": "native_reciprocal.c", "sources": ["src/reciprocal.c", "src/jit_compiler_x86_static.S"], "args": ["full"]},
        "timeout": 3600,
    },
    # no-op rule: IMUL_RCP with zero / power-of-two immediate decodes to NOP and leaves the last-writer table alone;
    # otherwise it multiplies by randomx_reciprocal(imm32) whose precondition is proved at the call site (interpreter side)
    _from_c05("decode_contract", "imul_rcp_decode_noop_rule"),
    _from_c05("exec_IMUL_RCP", "imul_rcp_execute_noop_rule"),
]
