/* Contract for randomx_reciprocal (src/reciprocal.c), merged onto the unmodified definition via -include.
   Taken from the property text: for every divisor that is neither zero nor a power of two the result is
   floor(2^x / d) for the largest x keeping the quotient below 2^64  ==> result in [2^63, 2^64).
   The exact-quotient clause is undecidable for the installed back ends (DESIGN 2) and is covered by the
   exhaustive native enumeration (labelled, not counted as proof). */
#include <stdint.h>
uint64_t randomx_reciprocal(uint32_t divisor)
__CPROVER_requires(divisor != 0 && (divisor & (divisor - 1)) != 0)
__CPROVER_ensures(__CPROVER_return_value >= (1ULL << 63))
__CPROVER_assigns();
