/* Exhaustive (thorough) / sampled (quick) native enumeration of randomx_reciprocal and
   randomx_reciprocal_fast against unsigned __int128.  NOT deductive: complete over the explored
   divisors only; evidence labels it as a native stand-in.  Compiled from /repo's current
   reciprocal.c and jit_compiler_x86_static.S on every run.
   usage: native_reciprocal full|quick [seed] */
#include <stdint.h>
#include <stdio.h>
#include <string.h>
#include <stdlib.h>
#include <pthread.h>
#include "reciprocal.h"

static int check(uint32_t d, unsigned long long *fails) {
	if (d == 0 || (d & (d - 1)) == 0) return 0;
	int bl = 32 - __builtin_clz(d);
	unsigned __int128 num = ((unsigned __int128)1) << (63 + bl);
	uint64_t want = (uint64_t)(num / d);
	uint64_t a = randomx_reciprocal(d);
	uint64_t b = randomx_reciprocal_fast(d);
	if (a != want || b != want) {
		if (__sync_fetch_and_add(fails, 1) < 5)
			printf("FAIL divisor=%u reciprocal=%llu reciprocal_fast=%llu expected=%llu\n", d,
				(unsigned long long)a, (unsigned long long)b, (unsigned long long)want);
		return 1;
	}
	return 0;
}

struct job { uint64_t lo, hi, step; unsigned long long *fails; unsigned long long cases; };
static void *worker(void *p) {
	struct job *j = (struct job *)p;
	for (uint64_t d = j->lo; d < j->hi; d += j->step) { check((uint32_t)d, j->fails); j->cases++; }
	return 0;
}

int main(int argc, char **argv) {
	int full = argc > 1 && !strcmp(argv[1], "full");
	uint64_t seed = argc > 2 ? strtoull(argv[2], 0, 10) : 0;
	unsigned long long fails = 0, cases = 0;
	enum { NT = 16 };
	pthread_t th[NT]; struct job jobs[NT];
	if (full) {
		for (int t = 0; t < NT; t++) {
			jobs[t] = (struct job){ (1ULL << 32) / NT * t, (1ULL << 32) / NT * (t + 1), 1, &fails, 0 };
			pthread_create(&th[t], 0, worker, &jobs[t]);
		}
	} else {
		/* all divisors < 2^20; a 2^22-point stride over the rest with a seed-dependent offset */
		uint64_t stride = 1021 + 2 * (seed % 16);
		for (int t = 0; t < NT; t++) {
			jobs[t] = (struct job){ (1ULL << 32) / NT * t + (seed % stride), (1ULL << 32) / NT * (t + 1), stride, &fails, 0 };
			pthread_create(&th[t], 0, worker, &jobs[t]);
		}
		for (uint64_t d = 0; d < (1u << 20); d++) { check((uint32_t)d, &fails); cases++; }
		for (int k = 1; k < 32; k++) for (int o = -3; o <= 3; o++) { check((uint32_t)((1ULL << k) + o), &fails); cases++; }
		for (int o = 0; o < 4096; o++) { check(0xffffffffu - o, &fails); cases++; }
	}
	for (int t = 0; t < NT; t++) { pthread_join(th[t], 0); cases += jobs[t].cases; }
	printf("CASES %llu\n", cases);
	printf("fails %llu mode %s\n", fails, full ? "full" : "quick");
	return fails ? 1 : 0;
}
