/* native replay of a counterexample divisor against the real reciprocal.c: exit 1 if the property is violated */
#include <stdint.h>
#include <stdio.h>
#include <stdlib.h>
#include <string.h>
#include "reciprocal.h"
int main(int argc, char **argv) {
	uint32_t d = 3;
	for (int i = 1; i < argc; i++) if (!strncmp(argv[i], "d=", 2)) d = (uint32_t)strtoull(argv[i] + 2, 0, 10);
	if (d == 0 || (d & (d - 1)) == 0) { printf("divisor %u outside the precondition\n", d); return 0; }
	int bl = 32 - __builtin_clz(d);
	uint64_t want = (uint64_t)((((unsigned __int128)1) << (63 + bl)) / d);
	uint64_t got = randomx_reciprocal(d);
	printf("divisor=%u reciprocal=%llu expected=%llu\n", d, (unsigned long long)got, (unsigned long long)want);
	return got != want || got < (1ULL << 63);
}
