#include <stdint.h>
uint64_t randomx_reciprocal(uint32_t divisor);
uint32_t nondet_u32(void);
void h_reciprocal(void) {
	uint32_t d = nondet_u32();
	uint64_t r = randomx_reciprocal(d);
	__CPROVER_assert(0, "canary");
}
