#define soft softAes
#include "ah.c"
size_t nondet_size(void); uint8_t nondet_u8(void);
/* progress obligations (contracts enforced for every size; buffer = base pointer + ghost extent, see contracts_aes_hash.h) */
#ifdef PROGRESS
uint8_t* rxv_buf_base; size_t rxv_buf_size; size_t rxv_cell; unsigned rxv_cell_loads, rxv_cell_stores, rxv_store_before_load;
static uint8_t buf_obj[16]; unsigned nondet_unsigned(void);
static void setup(void) { rxv_buf_base = buf_obj; rxv_buf_size = nondet_size(); rxv_cell = nondet_size();
	rxv_cell_loads = nondet_unsigned(); rxv_cell_stores = nondet_unsigned(); rxv_store_before_load = nondet_unsigned(); }
void h_fill1r(void) { void* state; setup(); fillAes1Rx4(state, rxv_buf_size, rxv_buf_base); __CPROVER_assert(0, "canary"); }
void h_fill4r(void) { void* state; setup(); fillAes4Rx4(state, rxv_buf_size, rxv_buf_base); __CPROVER_assert(0, "canary"); }
void h_hash1r(void) { void* hash; setup(); hashAes1Rx4(rxv_buf_base, rxv_buf_size, hash); __CPROVER_assert(0, "canary"); }
void h_hashfill(void) { void* hash; void* fs; setup(); hashAndFillAes1Rx4(rxv_buf_base, rxv_buf_size, hash, fs); __CPROVER_assert(0, "canary"); }
#endif

/* step obligations: NBLOCKS blocks against the specification (doc/specs.md 3.2-3.4), all seeds / inputs */
#ifndef PROGRESS
#ifndef NBLOCKS
#define NBLOCKS 2
#endif
static int same(const uint8_t* p, rxv_v128 v) { rxv_v128 a = rxv_ld(p); return a.lo == v.lo && a.hi == v.hi; }
void h_step_fill1r(void) {
	uint8_t seed[64], buf[64 * NBLOCKS]; rxv_v128 st[4];
	for (int i = 0; i < 64; i++) seed[i] = nondet_u8();
	for (int l = 0; l < 4; l++) st[l] = rxv_ld(seed + 16 * l);
	fillAes1Rx4(seed, 64 * NBLOCKS, buf);
	for (int b = 0; b < NBLOCKS; b++) { rxv_spec_gen1r(st); for (int l = 0; l < 4; l++) __CPROVER_assert(same(buf + 64 * b + 16 * l, st[l]), "AesGenerator1R output block equals specification"); }
	for (int l = 0; l < 4; l++) __CPROVER_assert(same(seed + 16 * l, st[l]), "AesGenerator1R state written back = last output");
	__CPROVER_assert(0, "canary");
}
void h_step_fill4r(void) {
	uint8_t seed[64], seed0[64], buf[64 * NBLOCKS]; rxv_v128 st[4];
	for (int i = 0; i < 64; i++) { seed[i] = nondet_u8(); seed0[i] = seed[i]; }
	for (int l = 0; l < 4; l++) st[l] = rxv_ld(seed + 16 * l);
	fillAes4Rx4(seed, 64 * NBLOCKS, buf);
	for (int b = 0; b < NBLOCKS; b++) { rxv_spec_gen4r(st); for (int l = 0; l < 4; l++) __CPROVER_assert(same(buf + 64 * b + 16 * l, st[l]), "AesGenerator4R output block equals specification"); }
	for (int i = 0; i < 64; i++) __CPROVER_assert(seed[i] == seed0[i], "AesGenerator4R does not modify the caller's state");
	__CPROVER_assert(0, "canary");
}
void h_step_hash1r(void) {
	uint8_t in[64 * NBLOCKS], out[64]; rxv_v128 st[4];
	for (int i = 0; i < 64 * NBLOCKS; i++) in[i] = nondet_u8();
	hashAes1Rx4(in, 64 * NBLOCKS, out);
	rxv_spec_hash1r_init(st);
	for (int b = 0; b < NBLOCKS; b++) rxv_spec_hash1r_absorb(st, in + 64 * b);
	rxv_spec_hash1r_final(st);
	for (int l = 0; l < 4; l++) __CPROVER_assert(same(out + 16 * l, st[l]), "AesHash1R fingerprint equals specification");
	__CPROVER_assert(0, "canary");
}
/* the combined step == fingerprint of the OLD content, then refill: 4096 bytes (the smallest size of its domain) */
void h_step_hashfill(void) {
	static uint8_t sp[4096], sp0[4096]; uint8_t seed[64], out[64]; rxv_v128 hs[4], fs[4];
	for (int i = 0; i < 4096; i++) { sp[i] = nondet_u8(); sp0[i] = sp[i]; }
	for (int i = 0; i < 64; i++) seed[i] = nondet_u8();
	for (int l = 0; l < 4; l++) fs[l] = rxv_ld(seed + 16 * l);
	hashAndFillAes1Rx4(sp, 4096, out, seed);
	rxv_spec_hash1r_init(hs);
	for (int b = 0; b < 64; b++) {
		rxv_spec_hash1r_absorb(hs, sp0 + 64 * b);
		rxv_spec_gen1r(fs);
		for (int l = 0; l < 4; l++) __CPROVER_assert(same(sp + 64 * b + 16 * l, fs[l]), "refilled block equals AesGenerator1R of the seed");
	}
	rxv_spec_hash1r_final(hs);
	for (int l = 0; l < 4; l++) __CPROVER_assert(same(out + 16 * l, hs[l]), "fingerprint equals AesHash1R of the previous content");
	for (int l = 0; l < 4; l++) __CPROVER_assert(same(seed + 16 * l, fs[l]), "fill state written back = last output");
	__CPROVER_assert(0, "canary");
}
#endif
