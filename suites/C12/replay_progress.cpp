/* Native replay for the fill / hash progress obligations (no verifier inputs needed): the real primitives (library built from
   /repo) run on buffers that end exactly at an inaccessible guard page, for sizes 0, 64, 128 and 4096: any access behind the
   buffer faults (reported, exit 1); a canary page in front of the buffer must stay untouched. */
#include <cstdio>
#include <cstring>
#include <csignal>
#include <cstdint>
#include <unistd.h>
#include <sys/mman.h>
#include "aes_hash.hpp"
static void on_fault(int) { const char m[] = "FAIL access outside the buffer (fault at the guard page)\n"; (void)!write(1, m, sizeof m - 1); _exit(1); }
int main() {
	signal(SIGSEGV, on_fault); signal(SIGBUS, on_fault);
	const size_t page = 4096, span = 3 * page;
	uint8_t* base = (uint8_t*)mmap(nullptr, span + page, PROT_READ | PROT_WRITE, MAP_PRIVATE | MAP_ANONYMOUS, -1, 0);
	mprotect(base + span, page, PROT_NONE);                                   /* guard page behind the buffers */
	const size_t sizes[] = { 0, 64, 128, 4096 }; int fails = 0, cases = 0;
	for (size_t sz : sizes) {
		memset(base, 0xA5, span); uint8_t* buf = base + span - sz;           /* buffer ends at the guard page */
		alignas(16) uint8_t hash[64], state[64]; memset(state, 7, 64);
		hashAes1Rx4<true>(buf, sz, hash); fillAes1Rx4<true>(state, sz, buf); fillAes4Rx4<true>(state, sz, buf);
		if (sz >= 4096) hashAndFillAes1Rx4<true>(buf, sz, hash, state);
		for (size_t i = 0; i < span - sz; ++i) if (base[i] != 0xA5) { printf("FAIL size %zu: byte %zu in front of the buffer was overwritten\n", sz, i); ++fails; break; }
		++cases;
	}
	printf("CASES %d\n", cases);
	return fails ? 1 : 0;
}
