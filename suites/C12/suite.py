import os, sys
sys.path.insert(0, os.path.join(os.path.dirname(os.path.abspath(__file__)), "..", "common"))
import cxx_specs as XS

PROPERTY = "C12"
LEVEL = "proof"
EXPLANATION = ('Proof that one AES round (soft T-table implementation) equals FIPS-197 SubBytes/ShiftRows/MixColumns/AddRoundKey column by column for all 2^128 states, that the four generator / hash primitives apply the specified keys and lane directions per 64-byte step, and (thorough) that the fused hashAndFill equals hash followed by fill.')
TRUSTED = ["suites/common/spec_aes.h (FIPS-197 round oracle)", "hardware AES instructions (AESENC/AESDEC, ARM, POWER) compute the FIPS-197 round: assumed",
           "asm/program_loop_store_*aes*.inc, program_soft_aes_*.inc (hand-written assembly)"]
ASSUMPTIONS = ["buffer sizes below 2^50 bytes in the progress obligations (pointer offsets have 52 bits with --object-bits 12; RandomX: 2 MiB)"]
NOT_DECIDED = ["hashAndFill == hash then fill as one obligation over a whole 4096-byte buffer (attempt obligation; the per-block step obligations and the visit-once schedule are decided)",
               "loads from the 64-byte state / hash objects in the progress obligations are not bounds-checked by CBMC (pointer checks are off there; constant offsets 0..48)"]
INC = ["@suites/common"]
SOFT = {"cxx": XS.SOFT_AES, "out": "soft.c", "header": True}

OBLIGATIONS = [
    {"name": "t_tables_equal_sbox_algebra", "files": [SOFT, "harness_tables.c"], "incdirs": INC, "entry": "h_tables",
     "unwind": 260, "expect_classes": ["assertion"], "expect_min": 2, "timeout": 900},
] + [
    {"name": "soft_aes%s_column%d_is_fips197" % ("dec" if dec else "enc", col), "tier": "thorough",
     "files": [SOFT, "harness_round.c"], "incdirs": INC, "defines": ["DEC=%d" % dec, "COL=%d" % col], "entry": "h_round",
     "unwind": 260, "backend": "cadical", "expect_classes": ["assertion"], "expect_min": 3, "timeout": 1800}
    for dec in (0, 1) for col in range(4)
]

AH = lambda loops: {"cxx": XS.AES_HASH, "out": "ah.c", "header": True, "loops": loops}
DEFS = ['RXV_CONTRACTS_H="contracts_aes_hash.h"', "softAes=1"]
AESREP = ["soft_aesenc", "soft_aesdec"]


def progress(name, fn, entry, loops, **kw):
    o = {"name": name, "files": [{"cxx": XS.AES_HASH_PROGRESS, "out": "ah.c", "header": True, "loops": loops}, "harness_aes_hash.c"], "incdirs": INC, "defines": DEFS + ["PROGRESS=1"], "entry": entry, "enforce": fn,
         "replace": AESREP + ["rxv_buf_load", "rxv_buf_store"], "loop_contracts": True, "cbmc_flags": ["--object-bits", "12"],
         # no CBMC pointer checks here: the running pointer legitimately leaves the 16-byte stand-in object of the base+extent model
         # (every buffer access is checked by the accessor contracts instead; stores to the 64-byte state / hash objects by the frame)
         "checks": ["--no-pointer-check", "--no-pointer-primitive-check", "--bounds-check", "--div-by-zero-check", "--undefined-shift-check", "--signed-overflow-check"],
         "expect_classes": ["loop_invariant_step", "precondition", "postcondition"], "expect_min": 20, "timeout": 1800, "mem_gb": 12, "weight": 3, "backend": "kissat",
         "replay": {"prog": "replay_progress.cpp", "sources": "lib", "flags": ["-O1", "-maes"], "no_args": True}}
    o.update(kw)
    return o


def step(name, entry, **kw):
    o = {"name": name, "files": [AH([]), "harness_aes_hash.c"], "incdirs": INC, "defines": DEFS, "entry": entry, "replace": AESREP,
         "unwind": 135, "cbmc_flags": ["--object-bits", "12"], "expect_classes": ["assertion"], "expect_min": 4, "timeout": 1500}
    o.update(kw)
    return o


OBLIGATIONS += [
    progress("fill1r_progress_every_size", "fillAes1Rx4", "h_fill1r", [{"function": "fillAes1Rx4", "expect_loops": 1, "loops": {"0": "RXV_FILL_LOOP_INVARIANT"}}]),
    progress("fill4r_progress_every_size", "fillAes4Rx4", "h_fill4r", [{"function": "fillAes4Rx4", "expect_loops": 1, "loops": {"0": "RXV_FILL_LOOP_INVARIANT"}}]),
    progress("hash1r_progress_every_size", "hashAes1Rx4", "h_hash1r", [{"function": "hashAes1Rx4", "expect_loops": 1, "loops": {"0": "RXV_HASH_LOOP_INVARIANT"}}]),
    progress("hash_and_fill_visits_each_block_once", "hashAndFillAes1Rx4", "h_hashfill",
             [{"function": "hashAndFillAes1Rx4", "expect_loops": 2, "loops": {"1": "RXV_HASHFILL_LOOP_INVARIANT"}}], pre_unwindset=["hashAndFillAes1Rx4.1:3"],
             replay={"prog": "replay_hash_and_fill.cpp", "sources": "lib", "flags": ["-O1", "-maes"], "no_args": True}),   # the two-pass for loop (back edge after the while loop's) is unrolled before the contract instrumentation
    step("fill1r_blocks_equal_spec_3_2", "h_step_fill1r"),
    step("fill4r_blocks_equal_spec_3_3", "h_step_fill4r"),
    step("hash1r_equals_spec_3_4", "h_step_hash1r"),
    # 64 unrolled blocks: ran 45 min and then exceeded the object table (--object-bits 12); kept as an attempt, listed as not decided
    step("hash_and_fill_equals_hash_then_fill_4096", "h_step_hashfill", unwind=4100, tier="attempt", timeout=7200, cbmc_flags=["--object-bits", "16"]),
]
