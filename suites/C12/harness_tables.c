/* C12-1 (quick part): the eight 256-entry T-tables of src/soft_aes.cpp equal the S-box algebra, entry by entry
   (concrete computation: no solver search): Te0[x] = (2.S[x], S[x], S[x], 3.S[x]) as little-endian bytes and its byte
   rotations; Td0[x] = (14, 9, 13, 11).IS[x] and rotations. */
#include "soft.c"
#include "spec_aes.h"
void h_tables(void) {
	for (int x = 0; x < 256; x++) {
		uint8_t s = aes_sbox((uint8_t)x), is = aes_isbox((uint8_t)x);
		uint32_t te = (uint32_t)aes_xtime(s) | (uint32_t)s << 8 | (uint32_t)s << 16 | (uint32_t)(aes_xtime(s) ^ s) << 24;
		uint32_t td = (uint32_t)aes_m14(is) | (uint32_t)aes_m9(is) << 8 | (uint32_t)aes_m13(is) << 16 | (uint32_t)aes_m11(is) << 24;
		for (int k = 0; k < 4; k++) {
			uint32_t rte = k ? (te << (8 * k)) | (te >> (32 - 8 * k)) : te;
			uint32_t rtd = k ? (td << (8 * k)) | (td >> (32 - 8 * k)) : td;
			__CPROVER_assert(randomx_aes_lut_enc[k][x] == rte, "encryption T-table entry");
			__CPROVER_assert(randomx_aes_lut_dec[k][x] == rtd, "decryption T-table entry");
		}
	}
	__CPROVER_assert(0, "canary");
}
