/* Native replay for the hashAndFill obligations (no verifier inputs needed: the counterexample is a buffer size and a block):
   the fused hashAndFillAes1Rx4 of the library built from /repo against hashAes1Rx4 followed by fillAes1Rx4, for buffer
   sizes from the prefetch distance upwards (soft and, if available, hardware AES).  exit 1 on any difference. */
#include <cstdio>
#include <cstring>
#include <cstdlib>
#include <cstdint>
#include "randomx.h"
#include "aes_hash.hpp"
template<bool soft> static int run(size_t size) {
	const size_t guard = 8192;                                       /* canary area behind the buffer */
	uint8_t* a = (uint8_t*)aligned_alloc(64, size + guard); uint8_t* b = (uint8_t*)aligned_alloc(64, size + guard);   /* aligned vector accesses */
	for (size_t i = 0; i < size + guard; ++i) a[i] = b[i] = (uint8_t)(i * 197 + 13);
	alignas(64) uint8_t h1[64], h2[64], s1[64], s2[64]; for (int i = 0; i < 64; ++i) s1[i] = s2[i] = (uint8_t)(i * 7 + 1);
	hashAndFillAes1Rx4<soft>(a, size, h1, s1);
	hashAes1Rx4<soft>(b, size, h2); fillAes1Rx4<soft>(s2, size, b);
	for (size_t i = size; i < size + guard; ++i) if (a[i] != (uint8_t)(i * 197 + 13)) { printf("FAIL size %zu (%s AES): hashAndFill wrote behind the buffer (offset %zu)\n", size, soft ? "soft" : "hard", i); return 1; }
	if (memcmp(h1, h2, 64) || memcmp(s1, s2, 64) || memcmp(a, b, size)) {
		printf("FAIL size %zu (%s AES): hashAndFill differs from hash followed by fill\n", size, soft ? "soft" : "hard"); return 1; }
	return 0;
}
#include <csignal>
#include <unistd.h>
static void on_fault(int) { const char m[] = "FAIL crash inside hashAndFill / hash / fill\n"; (void)!write(1, m, sizeof m - 1); _exit(1); }
int main() {
	signal(SIGSEGV, on_fault); signal(SIGABRT, on_fault); signal(SIGBUS, on_fault);
	const size_t sizes[] = { 4096, 4160, 8128, 8192, 12288, 65536, 2097152 }; int fails = 0, cases = 0;
	bool hard = (randomx_get_flags() & RANDOMX_FLAG_HARD_AES) != 0;
	for (size_t s : sizes) { fails += run<true>(s); ++cases; if (hard) { fails += run<false>(s); ++cases; } }
	printf("CASES %d\n", cases);
	return fails ? 1 : 0;
}
