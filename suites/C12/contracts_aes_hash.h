/* C12-3/4: contracts for the AES generators and fingerprint of src/aes_hash.cpp (extracted, portable rx_vec_i128,
   software AES path: template parameter softAes = 1).  One AES round is an uninterpreted function (its equality with
   FIPS-197 is C12-1); constants are the byte strings printed in doc/specs.md 3.2-3.4.
   Two kinds of obligations:
     (progress)  for EVERY size: the loops visit every 64-byte block exactly once, in order, and touch nothing else;
     (step)      for one block (and two, for chaining): the bytes produced are the specified lane-wise rounds.
   "Every size produces the specified bytes" is the induction over blocks of these two (meta-step, DESIGN). */
#ifndef RXV_CONTRACTS_AES_HASH_H
#define RXV_CONTRACTS_AES_HASH_H
/* UF: low / high 64 bits of one AES round (dec = 0: encryption round, 1: decryption round) */
uint64_t __CPROVER_uninterpreted_aes_lo(int dec, uint64_t in_lo, uint64_t in_hi, uint64_t k_lo, uint64_t k_hi);
uint64_t __CPROVER_uninterpreted_aes_hi(int dec, uint64_t in_lo, uint64_t in_hi, uint64_t k_lo, uint64_t k_hi);
#define RXV_AES_CONTRACT(fn, dec) \
rx_vec_i128 fn(rx_vec_i128 in, rx_vec_i128 key) \
__CPROVER_ensures(__CPROVER_return_value.u64[0] == __CPROVER_uninterpreted_aes_lo(dec, in.u64[0], in.u64[1], key.u64[0], key.u64[1])) \
__CPROVER_ensures(__CPROVER_return_value.u64[1] == __CPROVER_uninterpreted_aes_hi(dec, in.u64[0], in.u64[1], key.u64[0], key.u64[1])) \
__CPROVER_assigns();
RXV_AES_CONTRACT(soft_aesenc, 0)
RXV_AES_CONTRACT(soft_aesdec, 1)
#define RXV_MAX_LEN ((size_t)1 << 50)   /* stated bound on buffer sizes: pointer offsets have 52 bits with --object-bits 12 (RandomX: 2 MiB) */

/* ---------------- progress contracts (every size) ----------------
   The variable-size buffer is a base pointer with a ghost extent (CBMC cannot hold a writable object of symbolic size at
   this access density: 16-20 GB).  The extraction turns exactly the accesses through the running pointer into the accessor
   stand-ins below; their contracts require the 16 bytes to lie inside the extent and count the accesses to one arbitrary
   16-byte cell (ghost probe rxv_cell: byte offset, multiple of 16).  Loads return arbitrary values (every buffer content),
   stores change nothing the proof can observe.  That the running pointer points into the buffer object is part of the loop
   invariants.  Postconditions: every cell below the size is stored (fill) / loaded (hash) exactly once, for hashAndFill
   loaded exactly once and then stored exactly once, and no cell outside is touched. */
extern uint8_t* rxv_buf_base; extern size_t rxv_buf_size;
extern size_t rxv_cell; extern unsigned rxv_cell_loads, rxv_cell_stores, rxv_store_before_load;
#define RXV_CELL_OFF(p, k) ((size_t)(__CPROVER_POINTER_OFFSET(p) - __CPROVER_POINTER_OFFSET(rxv_buf_base)) + 16 * (size_t)(k))
#define RXV_IN_EXTENT(p, k) (__CPROVER_POINTER_OFFSET(p) >= __CPROVER_POINTER_OFFSET(rxv_buf_base) && RXV_CELL_OFF(p, k) + 16 <= rxv_buf_size)
rx_vec_i128 rxv_buf_load(const uint8_t* p, int k)
__CPROVER_requires(k >= 0 && k < 4 && RXV_IN_EXTENT(p, k)) __CPROVER_assigns(rxv_cell_loads)
__CPROVER_ensures(rxv_cell_loads == __CPROVER_old(rxv_cell_loads) + (RXV_CELL_OFF(p, k) == rxv_cell ? 1 : 0));
void rxv_buf_store(uint8_t* p, int k, rx_vec_i128 v)
__CPROVER_requires(k >= 0 && k < 4 && RXV_IN_EXTENT(p, k)) __CPROVER_assigns(rxv_cell_stores, rxv_store_before_load)
__CPROVER_ensures(rxv_cell_stores == __CPROVER_old(rxv_cell_stores) + (RXV_CELL_OFF(p, k) == rxv_cell ? 1 : 0))
__CPROVER_ensures(rxv_store_before_load == (__CPROVER_old(rxv_store_before_load) || (RXV_CELL_OFF(p, k) == rxv_cell && rxv_cell_loads == 0) ? 1 : 0));
#define RXV_GHOST0 (rxv_cell_loads == 0 && rxv_cell_stores == 0 && rxv_store_before_load == 0 && rxv_cell % 16 == 0)
#define RXV_CELL_INSIDE (rxv_cell < rxv_buf_size)

void fillAes1Rx4(void *state, size_t outputSize, void *buffer)
__CPROVER_requires(__CPROVER_is_fresh(state, 64) && outputSize % 64 == 0 && outputSize < RXV_MAX_LEN)
__CPROVER_requires(buffer == rxv_buf_base && outputSize == rxv_buf_size && RXV_GHOST0)
__CPROVER_assigns(__CPROVER_object_upto(state, 64), rxv_cell_loads, rxv_cell_stores, rxv_store_before_load)   /* besides the output extent: exactly the 64 state bytes */
__CPROVER_ensures(rxv_cell_stores == (RXV_CELL_INSIDE ? 1 : 0) && rxv_cell_loads == 0);
void fillAes4Rx4(void *state, size_t outputSize, void *buffer)
__CPROVER_requires(__CPROVER_is_fresh(state, 64) && outputSize % 64 == 0 && outputSize < RXV_MAX_LEN)
__CPROVER_requires(buffer == rxv_buf_base && outputSize == rxv_buf_size && RXV_GHOST0)
__CPROVER_assigns(rxv_cell_loads, rxv_cell_stores, rxv_store_before_load)                                      /* besides the output extent: nothing (the 4R state is not written back) */
__CPROVER_ensures(rxv_cell_stores == (RXV_CELL_INSIDE ? 1 : 0) && rxv_cell_loads == 0);
void hashAes1Rx4(const void *input, size_t inputSize, void *hash)
__CPROVER_requires(inputSize % 64 == 0 && inputSize < RXV_MAX_LEN && __CPROVER_is_fresh(hash, 64))
__CPROVER_requires(input == rxv_buf_base && inputSize == rxv_buf_size && RXV_GHOST0)
__CPROVER_assigns(__CPROVER_object_upto(hash, 64), rxv_cell_loads, rxv_cell_stores, rxv_store_before_load)
__CPROVER_ensures(rxv_cell_loads == (RXV_CELL_INSIDE ? 1 : 0) && rxv_cell_stores == 0);
/* the two-pass loop (end - 4096, then the last 4096 bytes): sizes that are a multiple of 64 and at least the prefetch
   distance (the library calls it with the 2 MiB scratchpad) */
void hashAndFillAes1Rx4(void *scratchpad, size_t scratchpadSize, void *hash, void* fill_state)
__CPROVER_requires(scratchpadSize % 64 == 0 && scratchpadSize >= 4096 && scratchpadSize < RXV_MAX_LEN)
__CPROVER_requires(scratchpad == rxv_buf_base && scratchpadSize == rxv_buf_size && RXV_GHOST0 && __CPROVER_is_fresh(hash, 64) && __CPROVER_is_fresh(fill_state, 64))
__CPROVER_assigns(__CPROVER_object_upto(hash, 64), __CPROVER_object_upto(fill_state, 64), rxv_cell_loads, rxv_cell_stores, rxv_store_before_load)
__CPROVER_ensures(rxv_cell_loads == (RXV_CELL_INSIDE ? 1 : 0) && rxv_cell_stores == (RXV_CELL_INSIDE ? 1 : 0) && rxv_store_before_load == 0);

#define RXV_OFF(p, base) ((size_t)(__CPROVER_POINTER_OFFSET(p) - __CPROVER_POINTER_OFFSET(base)))
#define RXV_FILL_LOOP_INVARIANT \
	__CPROVER_assigns(outptr, state0, state1, state2, state3, rxv_cell_loads, rxv_cell_stores, rxv_store_before_load) \
	__CPROVER_loop_invariant(rxv_cell_loads == 0 && rxv_cell_stores == ((rxv_cell < RXV_OFF(outptr, buffer)) ? 1 : 0)) \
	__CPROVER_loop_invariant(__CPROVER_same_object(outptr, buffer) && outputEnd == (const uint8_t*)buffer + outputSize) \
	__CPROVER_loop_invariant(__CPROVER_POINTER_OFFSET(outptr) >= __CPROVER_POINTER_OFFSET(buffer) && RXV_OFF(outptr, buffer) <= outputSize && RXV_OFF(outptr, buffer) % 64 == 0) \
	__CPROVER_decreases(outputSize - RXV_OFF(outptr, buffer))
#define RXV_HASH_LOOP_INVARIANT \
	__CPROVER_assigns(inptr, state0, state1, state2, state3, in0, in1, in2, in3, rxv_cell_loads, rxv_cell_stores, rxv_store_before_load) \
	__CPROVER_loop_invariant(rxv_cell_stores == 0 && rxv_cell_loads == ((rxv_cell < RXV_OFF(inptr, input)) ? 1 : 0)) \
	__CPROVER_loop_invariant(__CPROVER_same_object(inptr, input) && inputEnd == (const uint8_t*)input + inputSize) \
	__CPROVER_loop_invariant(__CPROVER_POINTER_OFFSET(inptr) >= __CPROVER_POINTER_OFFSET(input) && RXV_OFF(inptr, input) <= inputSize && RXV_OFF(inptr, input) % 64 == 0) \
	__CPROVER_decreases(inputSize - RXV_OFF(inptr, input))
#define RXV_HASHFILL_LOOP_INVARIANT \
	__CPROVER_assigns(scratchpadPtr, prefetchPtr, hash_state0, hash_state1, hash_state2, hash_state3, fill_state0, fill_state1, fill_state2, fill_state3, rxv_cell_loads, rxv_cell_stores, rxv_store_before_load) \
	__CPROVER_loop_invariant(rxv_store_before_load == 0 && rxv_cell_loads == ((rxv_cell < RXV_OFF(scratchpadPtr, scratchpad)) ? 1 : 0) && rxv_cell_stores == rxv_cell_loads) \
	__CPROVER_loop_invariant(__CPROVER_same_object(scratchpadPtr, scratchpad) && __CPROVER_same_object(scratchpadEnd, scratchpad)) \
	__CPROVER_loop_invariant(__CPROVER_POINTER_OFFSET(scratchpadPtr) >= __CPROVER_POINTER_OFFSET(scratchpad) && RXV_OFF(scratchpadPtr, scratchpad) % 64 == 0) \
	__CPROVER_loop_invariant(__CPROVER_POINTER_OFFSET(scratchpadPtr) <= __CPROVER_POINTER_OFFSET(scratchpadEnd)) \
	__CPROVER_loop_invariant(scratchpadEnd == (const uint8_t*)scratchpad + scratchpadSize - (i == 0 ? 4096 : 0)) \
	__CPROVER_loop_invariant(i >= 0 && i < 2 && (i == 0 || RXV_OFF(scratchpadPtr, scratchpad) >= scratchpadSize - 4096)) \
	__CPROVER_decreases(__CPROVER_POINTER_OFFSET(scratchpadEnd) - __CPROVER_POINTER_OFFSET(scratchpadPtr))

/* ---------------- specification constants (doc/specs.md 3.2 - 3.4, memory byte order) ---------------- */
static const uint8_t rxv_gen1r_key[4][16] = {
	{ 0x53, 0xa5, 0xac, 0x6d, 0x09, 0x66, 0x71, 0x62, 0x2b, 0x55, 0xb5, 0xdb, 0x17, 0x49, 0xf4, 0xb4 },
	{ 0x07, 0xaf, 0x7c, 0x6d, 0x0d, 0x71, 0x6a, 0x84, 0x78, 0xd3, 0x25, 0x17, 0x4e, 0xdc, 0xa1, 0x0d },
	{ 0xf1, 0x62, 0x12, 0x3f, 0xc6, 0x7e, 0x94, 0x9f, 0x4f, 0x79, 0xc0, 0xf4, 0x45, 0xe3, 0x20, 0x3e },
	{ 0x35, 0x81, 0xef, 0x6a, 0x7c, 0x31, 0xba, 0xb1, 0x88, 0x4c, 0x31, 0x16, 0x54, 0x91, 0x16, 0x49 } };
static const uint8_t rxv_gen4r_key[8][16] = {
	{ 0xdd, 0xaa, 0x21, 0x64, 0xdb, 0x3d, 0x83, 0xd1, 0x2b, 0x6d, 0x54, 0x2f, 0x3f, 0xd2, 0xe5, 0x99 },
	{ 0x50, 0x34, 0x0e, 0xb2, 0x55, 0x3f, 0x91, 0xb6, 0x53, 0x9d, 0xf7, 0x06, 0xe5, 0xcd, 0xdf, 0xa5 },
	{ 0x04, 0xd9, 0x3e, 0x5c, 0xaf, 0x7b, 0x5e, 0x51, 0x9f, 0x67, 0xa4, 0x0a, 0xbf, 0x02, 0x1c, 0x17 },
	{ 0x63, 0x37, 0x62, 0x85, 0x08, 0x5d, 0x8f, 0xe7, 0x85, 0x37, 0x67, 0xcd, 0x91, 0xd2, 0xde, 0xd8 },
	{ 0x73, 0x6f, 0x82, 0xb5, 0xa6, 0xa7, 0xd6, 0xe3, 0x6d, 0x8b, 0x51, 0x3d, 0xb4, 0xff, 0x9e, 0x22 },
	{ 0xf3, 0x6b, 0x56, 0xc7, 0xd9, 0xb3, 0x10, 0x9c, 0x4e, 0x4d, 0x02, 0xe9, 0xd2, 0xb7, 0x72, 0xb2 },
	{ 0xe7, 0xc9, 0x73, 0xf2, 0x8b, 0xa3, 0x65, 0xf7, 0x0a, 0x66, 0xa9, 0x2b, 0xa7, 0xef, 0x3b, 0xf6 },
	{ 0x09, 0xd6, 0x7c, 0x7a, 0xde, 0x39, 0x58, 0x91, 0xfd, 0xd1, 0x06, 0x0c, 0x2d, 0x76, 0xb0, 0xc0 } };
static const uint8_t rxv_hash1r_state[4][16] = {
	{ 0x0d, 0x2c, 0xb5, 0x92, 0xde, 0x56, 0xa8, 0x9f, 0x47, 0xdb, 0x82, 0xcc, 0xad, 0x3a, 0x98, 0xd7 },
	{ 0x6e, 0x99, 0x8d, 0x33, 0x98, 0xb7, 0xc7, 0x15, 0x5a, 0x12, 0x9e, 0xf5, 0x57, 0x80, 0xe7, 0xac },
	{ 0x17, 0x00, 0x77, 0x6a, 0xd0, 0xc7, 0x62, 0xae, 0x6b, 0x50, 0x79, 0x50, 0xe4, 0x7c, 0xa0, 0xe8 },
	{ 0x0c, 0x24, 0x0a, 0x63, 0x8d, 0x82, 0xad, 0x07, 0x05, 0x00, 0xa1, 0x79, 0x48, 0x49, 0x99, 0x7e } };
static const uint8_t rxv_hash1r_xkey[2][16] = {
	{ 0x89, 0x83, 0xfa, 0xf6, 0x9f, 0x94, 0x24, 0x8b, 0xbf, 0x56, 0xdc, 0x90, 0x01, 0x02, 0x89, 0x06 },
	{ 0xd1, 0x63, 0xb2, 0x61, 0x3c, 0xe0, 0xf4, 0x51, 0xc6, 0x43, 0x10, 0xee, 0x9b, 0xf9, 0x18, 0xed } };
typedef struct { uint64_t lo, hi; } rxv_v128;
static inline rxv_v128 rxv_ld(const uint8_t* b) {
	rxv_v128 v = { 0, 0 };
	for (int k = 7; k >= 0; k--) { v.lo = (v.lo << 8) | b[k]; v.hi = (v.hi << 8) | b[8 + k]; }
	return v;
}
static inline rxv_v128 rxv_round(int dec, rxv_v128 in, rxv_v128 key) {
	rxv_v128 o = { __CPROVER_uninterpreted_aes_lo(dec, in.lo, in.hi, key.lo, key.hi), __CPROVER_uninterpreted_aes_hi(dec, in.lo, in.hi, key.lo, key.hi) };
	return o;
}
/* 3.2: one AesGenerator1R iteration: columns 0,2 decrypt, 1,3 encrypt, key l for column l */
static inline void rxv_spec_gen1r(rxv_v128 st[4]) { for (int l = 0; l < 4; l++) st[l] = rxv_round(l % 2 == 0, st[l], rxv_ld(rxv_gen1r_key[l])); }
/* 3.3: one AesGenerator4R iteration: four rounds per column; columns 0,1 use keys 0-3, columns 2,3 keys 4-7 */
static inline void rxv_spec_gen4r(rxv_v128 st[4]) {
	for (int r = 0; r < 4; r++) for (int l = 0; l < 4; l++) st[l] = rxv_round(l % 2 == 0, st[l], rxv_ld(rxv_gen4r_key[(l < 2 ? 0 : 4) + r]));
}
/* 3.4: AesHash1R absorbs one 64-byte block: columns 0,2 encrypt, 1,3 decrypt, keyed by the block */
static inline void rxv_spec_hash1r_absorb(rxv_v128 st[4], const uint8_t block[64]) { for (int l = 0; l < 4; l++) st[l] = rxv_round(l % 2 == 1, st[l], rxv_ld(block + 16 * l)); }
static inline void rxv_spec_hash1r_init(rxv_v128 st[4]) { for (int l = 0; l < 4; l++) st[l] = rxv_ld(rxv_hash1r_state[l]); }
static inline void rxv_spec_hash1r_final(rxv_v128 st[4]) { for (int x = 0; x < 2; x++) for (int l = 0; l < 4; l++) st[l] = rxv_round(l % 2 == 1, st[l], rxv_ld(rxv_hash1r_xkey[x])); }
#endif
