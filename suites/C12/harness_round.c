/* C12-1: soft_aesenc / soft_aesdec (extracted from src/soft_aes.cpp, portable rx_vec_i128) == one FIPS-197 round /
   inverse round, for all 2^256 (state, key), stated per output column COL (0..3).  DEC selects the direction. */
#include "soft.c"
#include "spec_aes.h"
uint8_t nondet_u8(void);
void h_round(void) {
	static aes_tables T;
	aes_fill_tables(&T);                                   /* concrete: computed from the GF(2^8) definition */
	__CPROVER_assert(T.s[0x00] == 0x63 && T.s[0x53] == 0xed && T.is[0x63] == 0x00, "S-box anchor values (FIPS-197 Fig. 7)");
	uint8_t in[16], key[16], want[4];
	rx_vec_i128 vi, vk, vo;
	for (int i = 0; i < 16; i++) { in[i] = nondet_u8(); key[i] = nondet_u8(); vi.u8[i] = in[i]; vk.u8[i] = key[i]; }
#if DEC
	vo = soft_aesdec(vi, vk);
	aes_dec_column(&T, in, key, COL, want);
#else
	vo = soft_aesenc(vi, vk);
	aes_enc_column(&T, in, key, COL, want);
#endif
	for (int r = 0; r < 4; r++) __CPROVER_assert(vo.u8[4 * COL + r] == want[r], "round output column equals FIPS-197");
	__CPROVER_assert(0, "canary");
}
