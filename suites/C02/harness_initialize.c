/* C02-1: randomx_vm::initialize (virtual_machine.cpp, extracted) == doc/specs.md 4.5 for every 128-byte configuration
   block (16 quadwords, little-endian): group A registers (4.5.2), ma/mx (4.5.3), address registers (4.5.4), dataset
   offset (4.5.5), group E masks (4.5.6); and nothing else of the VM is written.  Loop-free, full domain. */
#include "vm.c"
uint64_t nondet_u64(void); uint8_t nondet_u8(void);
static uint64_t bits(double d) { union { double d; uint64_t u; } x; x.d = d; return x.u; }
#define SPEC_DATASET_BASE_SIZE 2147483648ULL
#define SPEC_DATASET_EXTRA_SIZE 33554368ULL
void h_initialize(void) {
	static struct randomx_vm vm, before;
	uint64_t q[16];
	for (int i = 0; i < 16; i++) { q[i] = nondet_u64(); uint8_t* p = (uint8_t*)&vm.program.entropyBuffer[i]; for (int b = 0; b < 8; b++) p[b] = (uint8_t)(q[i] >> (8 * b)); }
	vm.datasetOffset = nondet_u64(); vm.mem.ma = (uint32_t)nondet_u64(); vm.mem.mx = (uint32_t)nondet_u64();
	static uint8_t spobj[8]; vm.scratchpad = spobj; vm.vmFlags = (randomx_flags)nondet_u8(); vm.reg.r[3] = nondet_u64(); vm.reg.f[1].hi = 1.5; vm.reg.e[2].lo = 2.5;
	before = vm;
	randomx_vm_initialize(&vm);
	/* 4.5.2: a_i = +1.fraction x 2^exponent, fraction = bits 0-51, exponent = bits 59-63 (0..31) */
	for (int i = 0; i < 4; i++) {
		uint64_t lo = bits(vm.reg.a[i].lo), hi = bits(vm.reg.a[i].hi);
		__CPROVER_assert(lo == (((1023 + (q[2 * i] >> 59)) << 52) | (q[2 * i] & ((1ULL << 52) - 1))), "group A low half (4.5.2)");
		__CPROVER_assert(hi == (((1023 + (q[2 * i + 1] >> 59)) << 52) | (q[2 * i + 1] & ((1ULL << 52) - 1))), "group A high half (4.5.2)");
		__CPROVER_assert(vm.reg.a[i].lo >= 1.0 && vm.reg.a[i].lo < 4294967296.0 && vm.reg.a[i].hi >= 1.0 && vm.reg.a[i].hi < 4294967296.0, "group A lies in [1, 2^32) (4.3)");
	}
	/* 4.5.3: low 32 bits of quadwords 8 and 10; every use reduces them modulo the base size to a multiple of 64 (4.6.2) */
	const uint32_t use_mask = (uint32_t)((SPEC_DATASET_BASE_SIZE - 1) & ~63ULL);
	__CPROVER_assert((vm.mem.ma & use_mask) == ((uint32_t)q[8] & use_mask) && (vm.mem.ma % 64) == 0, "ma (4.5.3)");
	__CPROVER_assert(vm.mem.mx == (uint32_t)q[10], "mx (4.5.3)");
	/* 4.5.4 */
	__CPROVER_assert(vm.config.readReg0 == 0 + (q[12] & 1) && vm.config.readReg1 == 2 + ((q[12] >> 1) & 1) && vm.config.readReg2 == 4 + ((q[12] >> 2) & 1)
		&& vm.config.readReg3 == 6 + ((q[12] >> 3) & 1), "address registers (4.5.4)");
	/* 4.5.5 */
	__CPROVER_assert(vm.datasetOffset == (q[13] % (SPEC_DATASET_EXTRA_SIZE / 64 + 1)) * 64, "dataset offset (4.5.5)");
	__CPROVER_assert(vm.datasetOffset + use_mask + 64 <= SPEC_DATASET_BASE_SIZE + SPEC_DATASET_EXTRA_SIZE, "C06: every dataset read stays inside the dataset");
	/* 4.5.6 with 4.3.2: fraction mask = bits 0-21, exponent mask = bits 60-63 placed below the constant 011 prefix */
	for (int i = 0; i < 2; i++)
		__CPROVER_assert(vm.config.eMask[i] == ((q[14 + i] & 0x3fffff) | ((0x300ULL | ((q[14 + i] >> 60) << 4)) << 52)), "group E masks (4.5.6)");
	/* frame */
	__CPROVER_assert(vm.scratchpad == before.scratchpad && vm.vmFlags == before.vmFlags && vm.reg.r[3] == before.reg.r[3]
		&& bits(vm.reg.f[1].hi) == bits(before.reg.f[1].hi) && bits(vm.reg.e[2].lo) == bits(before.reg.e[2].lo), "nothing else is written");
	for (int i = 0; i < 16; i++) __CPROVER_assert(vm.program.entropyBuffer[i] == before.program.entropyBuffer[i], "configuration block unchanged");
	__CPROVER_assert(0, "canary");
}
