import os, sys
sys.path.insert(0, os.path.join(os.path.dirname(os.path.abspath(__file__)), "..", "common"))
import cxx_specs as XS
from imports import imported

PROPERTY = "C02"
LEVEL = "proof"
EXPLANATION = ('Proof that randomx_vm::initialize derives the program configuration exactly as specification 4.5 says (for every 128-byte entropy block) and that the public hash driver (calculate_hash / first / next / last) performs the steps of specification chapter 2 in order, with the Blake2b / AES / execute steps as contract stand-ins whose own contracts are C11 / C12 / C05.')
TRUSTED = ["end-to-end composition of the component contracts into randomx(K,H) == Spec(K,H) (meta-step)",
           "determinism across builds and compilers (no obligation can speak about two builds)"]
ASSUMPTIONS = []
NOT_DECIDED = ["end-to-end equality of whole hashes"]
INC = ["@suites/common"]
DRV = {"cxx": XS.RX_DRIVER, "out": "rx.c", "header": True}

OBLIGATIONS = [
    {"name": "vm_initialize_equals_spec_4_5", "files": [{"cxx": XS.VM_INIT, "out": "vm.c", "header": True}, "harness_initialize.c"],
     "incdirs": INC, "entry": "h_initialize", "unwind": 17, "expect_classes": ["assertion"], "expect_min": 10},
    {"name": "hash_driver_follows_spec_chapter_2", "files": [DRV, "@suites/common/harness_driver.c"], "incdirs": INC,
     "defines": ['RXV_CONTRACTS_H="decls_driver.h"'], "entry": "h_single", "unwind": 10, "expect_classes": ["assertion"], "expect_min": 10},
    # the Blake2b framing the driver's stand-ins rely on (contracts of C11): the two loop-free cases of update, and final
    imported("C11", "update_arith_contract_input_fits_buffer", "blake2b_update_buffers_input_that_fits"),
    imported("C11", "update_arith_contract_one_block_completed", "blake2b_update_compresses_exactly_one_completed_block"),
    imported("C11", "final_contract", "blake2b_final_pads_and_flags_the_last_block"),
    # SuperscalarHash program generation (specification 6.3): program bound and termination rule of the generator's control skeleton (suite C09)
    imported("C09", "generator_skeleton_program_bounds_termination_rule_and_termination", "superscalar_generator_stops_as_specified"),
]
