/* Native replay for init_cache_rekeys_unless_same_key (no verifier inputs: the counterexample is a pair of abstract key
   identities): re-key one cache object through a fixed family of (old key, new key) pairs - equal keys, different keys of
   equal length, new key a proper prefix of the old one, empty new key, new key longer than the old one, binary keys of equal length that differ only behind an embedded zero byte - and compare the hash
   with the one from a freshly allocated cache initialised with the new key.  exit 1 on any mismatch. */
#include <cstdio>
#include <cstring>
#include <string>
#include "randomx.h"
static std::string hash_with(randomx_cache* c, const char* input) {
	randomx_vm* vm = randomx_create_vm(RANDOMX_FLAG_DEFAULT, c, nullptr); char h[RANDOMX_HASH_SIZE];
	randomx_calculate_hash(vm, input, strlen(input), h); randomx_destroy_vm(vm); return std::string(h, RANDOMX_HASH_SIZE);
}
int main() {
	const char* pairs[][2] = { { "test key 0001", "test key 000" }, { "test key 000", "" }, { "test key 000", "test key 001" },
		{ "abc", "abcd" }, { "test key 000", "test key 000" }, { "", "x" } };
	int fails = 0, cases = 0;
	randomx_cache* c = randomx_alloc_cache(RANDOMX_FLAG_DEFAULT);
	for (auto& p : pairs) {
		randomx_init_cache(c, p[0], strlen(p[0]));
		randomx_init_cache(c, p[1], strlen(p[1]));
		randomx_cache* f = randomx_alloc_cache(RANDOMX_FLAG_DEFAULT); randomx_init_cache(f, p[1], strlen(p[1]));
		++cases;
		if (hash_with(c, "replay input") != hash_with(f, "replay input")) { printf("FAIL re-keying \"%s\" -> \"%s\": hash differs from a fresh cache initialised with the new key\n", p[0], p[1]); ++fails; }
		randomx_release_cache(f);
	}
	{	/* binary keys (keys are block hashes in practice): equal up to and including a zero byte, different behind it */
		char a[32], b[32]; for (int i = 0; i < 32; ++i) a[i] = b[i] = (char)(i + 1); a[5] = b[5] = 0; b[20] ^= 0x55;
		randomx_init_cache(c, a, 32); randomx_init_cache(c, b, 32);
		randomx_cache* f = randomx_alloc_cache(RANDOMX_FLAG_DEFAULT); randomx_init_cache(f, b, 32);
		++cases;
		if (hash_with(c, "replay input") != hash_with(f, "replay input")) { printf("FAIL re-keying with a 32-byte binary key that differs only behind an embedded zero byte: hash differs from a fresh cache\n"); ++fails; }
		randomx_release_cache(f);
	}
	randomx_release_cache(c);
	printf("CASES %d\n", cases);
	return fails ? 1 : 0;
}
