import os, sys
sys.path.insert(0, os.path.join(os.path.dirname(os.path.abspath(__file__)), "..", "common"))
import cxx_specs as XS

PROPERTY = "C03"
LEVEL = "proof"
EXPLANATION = ('Proof over an abstract history: for every earlier binding of a VM (any cache object, memory address and key tag) randomx_vm_set_cache leaves the VM bound to the cache it was given; for every earlier key of a cache object randomx_init_cache re-initialises unless the key is equal as a whole; a batch of first/next/last calls performs the same steps as single calls. The representation invariant is re-established by every public operation, so it holds after any history (meta-step).')
TRUSTED = ["heap contents / allocator behaviour", "std::string equality == byte-wise key equality (abstract identity in the proofs)",
           "induction over public operations (meta-step: every operation requires and ensures the representation invariant)"]
ASSUMPTIONS = []
NOT_DECIDED = []
INC = ["@suites/common"]
DRV = {"cxx": XS.RX_DRIVER, "out": "rx.c", "header": True}

OBLIGATIONS = [
    {"name": "batch_equals_single_call_steps", "files": [DRV, "@suites/common/harness_driver.c"], "incdirs": INC,
     "defines": ['RXV_CONTRACTS_H="decls_driver.h"'], "entry": "h_batch", "unwind": 10, "expect_classes": ["assertion"], "expect_min": 10},
    {"name": "set_cache_rebinds_for_every_history", "files": [{"cxx": XS.RX_SET_CACHE, "out": "rx.c", "header": True}, "harness_set_cache.c"],
     "incdirs": INC, "defines": ['RXV_CONTRACTS_H="decls_set_cache.h"'], "entry": "h_set_cache",
     "expect_classes": ["assertion"], "expect_min": 3,
     "replay": {"prog": "replay_set_cache.cpp", "sources": "lib", "flags": ["-O1"], "vars": ["zzz"], "always": True}},
    {"name": "init_cache_rekeys_unless_same_key", "files": [{"cxx": XS.RX_INIT_CACHE, "out": "rx.c", "header": True}, "harness_init_cache.c"],
     "incdirs": INC, "defines": ['RXV_CONTRACTS_H="decls_set_cache.h"'], "entry": "h_init_cache",
     "expect_classes": ["assertion"], "expect_min": 3,
     "replay": {"prog": "replay_init_cache.cpp", "sources": "lib", "flags": ["-O1"], "no_args": True}},
]
