/* C03-4: randomx_init_cache (src/randomx.cpp, extracted).  Whatever key the cache object held before (any identity, any
   length, initialised or not), after randomx_init_cache(cache, key, keySize) the cache holds `key`: either the cache was
   initialised from exactly this key and the call changed nothing, or cache->initialize ran with (key, keySize) and the stored
   key was replaced.  The "same key -> nothing to do" shortcut must be an equality test on the whole key.
   std::string is the abstract model of the extractor prelude (identity = uninterpreted function of source and length).
   cache->initialize is a STUB that records its arguments; isInitialized is a STUB returning a ghost flag. */
#include "rx.c"
static int g_inits; static const void* g_init_key; static size_t g_init_size; static randomx_cache* g_init_cache; static _Bool g_initialised;
static void stub_initialize(randomx_cache* c, const void* key, size_t keySize) { g_inits++; g_init_cache = c; g_init_key = key; g_init_size = keySize; g_initialised = 1; }
_Bool randomx_cache_isInitialized(randomx_cache* c) { return g_initialised; }
/* STUBs for byte-wise comparisons a rewritten shortcut might use, over the abstract key identity (equal ids <=> equal byte
   strings): memcmp is exact; the C-string comparisons stop at a zero byte, so for binary keys they return 0 whenever the
   bytes are equal and ANY value otherwise - an equality test built on them is refuted. */
int memcmp(const void* a, const void* b, size_t n) { if (__CPROVER_uninterpreted_rxv_key_id(a, n) == __CPROVER_uninterpreted_rxv_key_id(b, n)) return 0; return 1; }
int strncmp(const char* a, const char* b, size_t n) { if (__CPROVER_uninterpreted_rxv_key_id(a, n) == __CPROVER_uninterpreted_rxv_key_id(b, n)) return 0; return nondet_int(); }
int strcmp(const char* a, const char* b) { return nondet_int(); }
unsigned long long nondet_ull(void); int nondet_int(void); size_t nondet_size(void);
void h_init_cache(void) {
	static randomx_cache cache; static char keybuf[1], oldbuf[1];
	const char* key = keybuf; size_t keySize = nondet_size();
	cache.initialize = stub_initialize;
	cache.cacheKey.id = nondet_ull(); cache.cacheKey.size = nondet_size(); cache.cacheKey.data = oldbuf;
	g_initialised = nondet_int() != 0;
	unsigned long long old_id = cache.cacheKey.id, new_id = __CPROVER_uninterpreted_rxv_key_id(key, keySize);
	_Bool was_initialised = g_initialised;
	/* string-model representation invariant: the identity is that of the bytes the string holds */
	__CPROVER_assume(__CPROVER_uninterpreted_rxv_key_id(cache.cacheKey.data, cache.cacheKey.size) == old_id);
	/* string-model invariant: equal identities have equal lengths */
	__CPROVER_assume(old_id != new_id || cache.cacheKey.size == keySize);
	randomx_init_cache(&cache, key, keySize);
	__CPROVER_assert(cache.cacheKey.id == new_id, "after init_cache the cache's key tag is the key it was given");
	__CPROVER_assert((was_initialised && old_id == new_id) || (g_inits == 1 && g_init_cache == &cache && g_init_key == key && g_init_size == keySize),
		"unless the cache was already initialised from exactly this key, it is (re)initialised from it - for every pair of old and new key");
	__CPROVER_assert(g_inits <= 1, "at most one initialisation");
	__CPROVER_assert(0, "canary");
}
