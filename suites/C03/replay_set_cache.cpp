/* Native replay of the stale-cache-pointer history on the real library: bind a light interpreted VM to cache A (key K),
   release A, allocate and initialise cache B with the same key (the allocator hands out the same 256 MiB address),
   re-bind, hash.  exit 1 if the hash differs from the fresh-VM hash or the process faults in the dangling cache. */
#include "randomx.h"
#include <csignal>
#include <cstdio>
#include <cstring>
#include <unistd.h>
static void on_segv(int) { const char m[] = "SIGSEGV while hashing after set_cache: the VM still reads the released cache object -> VIOLATED\n"; write(1, m, sizeof m - 1); _exit(1); }
int main() {
	randomx_flags f = RANDOMX_FLAG_DEFAULT;
	unsigned char want[32], got[32];
	{ randomx_cache* c = randomx_alloc_cache(f); randomx_init_cache(c, "key K", 5); randomx_vm* v = randomx_create_vm(f, c, NULL);
	  randomx_calculate_hash(v, "x", 1, want); randomx_destroy_vm(v); randomx_release_cache(c); }
	randomx_cache* a = randomx_alloc_cache(f);
	randomx_init_cache(a, "key K", 5);
	randomx_vm* vm = randomx_create_vm(f, a, NULL);
	void* mem_a = randomx_get_cache_memory(a);
	randomx_release_cache(a);
	/* keep the freed cache object's heap block from being handed out again, as a long-running process would */
	void* spacer[64]; for (int i = 0; i < 64; i++) { spacer[i] = operator new(4096); memset(spacer[i], 0xA5, 4096); }
	randomx_cache* b = randomx_alloc_cache(f);
	randomx_init_cache(b, "key K", 5);
	printf("cache objects a=%p b=%p, memory a=%p b=%p\n", (void*)a, (void*)b, mem_a, randomx_get_cache_memory(b));
	signal(SIGSEGV, on_segv);
	randomx_vm_set_cache(vm, b);
	randomx_calculate_hash(vm, "x", 1, got);
	int bad = memcmp(want, got, 32) != 0;
	printf("hash after re-binding to a new cache with the same key: %s\n", bad ? "DIFFERS from a fresh VM -> VIOLATED" : "equals a fresh VM");
	return bad;
}
