/* C03-3: randomx_vm_set_cache (src/randomx.cpp, extracted).  Representation invariant of a light-mode VM: its cache
   pointer, its memory pointer and its key tag all describe the cache it is bound to.  After set_cache(vm, cache) the VM is
   bound to `cache` - whatever it was bound to before, including a cache object that has meanwhile been released and whose
   memory address and key coincide with the new one (the "does nothing if the key is unchanged" shortcut must not leave a
   stale cache pointer behind).  std::string equality is an abstract identity (rxv_string.id).
   The virtual setCache is a STUB with the contract of InterpretedLightVm::setCache / CompiledLightVm::setCache
   (cachePtr = cache, mem.memory = cache->memory; enforced on the real bodies in their own obligations). */
#include "rx.c"
void randomx_vm_setCache(randomx_vm* m, randomx_cache* c) { m->cachePtr = c; m->mem.memory = c->memory; }
_Bool randomx_cache_isInitialized(randomx_cache* c) { return 1; }
unsigned long long nondet_ull(void); int nondet_int(void);
void h_set_cache(void) {
	static struct randomx_vm vm; static randomx_cache cache, old_cache; static uint8_t mem_a[8], mem_b[8];
	/* arbitrary earlier binding: same or different cache object, same or different memory address, same or different key */
	vm.cachePtr = nondet_int() ? &cache : &old_cache;
	vm.mem.memory = nondet_int() ? mem_a : mem_b;
	vm.cacheKey.id = nondet_ull();
	cache.memory = nondet_int() ? mem_a : mem_b;
	cache.cacheKey.id = nondet_ull();
	randomx_vm_set_cache(&vm, &cache);
	__CPROVER_assert(vm.cachePtr == &cache, "the VM reads dataset items from the cache it was given (no stale cache pointer)");
	__CPROVER_assert(vm.mem.memory == cache.memory, "the VM's memory pointer is the new cache's memory");
	__CPROVER_assert(rxv_string_eq(&vm.cacheKey, &cache.cacheKey), "the VM's key tag is the new cache's key");
	__CPROVER_assert(0, "canary");
}
