/* C06-3: code generation stays inside the program area of the JIT buffer (below the SuperscalarHash routine) for every
   program.  generateCode (one instruction) is replaced by its contract - at most 32 bytes, written at codePos, codePos
   advances by the number of bytes (suite C04 proves it per emitter).  Blob sizes are the ones measured from the assembled
   current jit_compiler_x86_static.S on this run (jit_sizes.h). */
#ifndef RXV_CONTRACTS_JIT_LAYOUT_H
#define RXV_CONTRACTS_JIT_LAYOUT_H
extern const uint8_t codePrefetchScratchpad[];
void rxv_vec_clear(rxv_vector* v);
void JitCompilerX86_generateCode(struct JitCompilerX86* self, Instruction* instr, int i)
__CPROVER_requires(__CPROVER_rw_ok(self, sizeof(*self)))
/* the whole 32-byte slot of every instruction lies below the SuperscalarHash routine */
__CPROVER_requires(self->codePos >= 0 && (size_t)self->codePos + 32 <= RandomXCodeSize && __CPROVER_w_ok(self->code + self->codePos, 32))
__CPROVER_assigns(self->codePos, __CPROVER_object_upto(self->registerUsage, sizeof(self->registerUsage)), self->instructionOffsets, __CPROVER_object_upto(self->code + self->codePos, 32))
__CPROVER_ensures(self->codePos >= __CPROVER_old(self->codePos) && self->codePos <= __CPROVER_old(self->codePos) + 32);

/* program length: 256 (v1) / 384 (v2), doc/configuration.md */
#define RXV_NPROG ((self->vmFlags & RANDOMX_FLAG_V2) ? 384u : 256u)
#define RXV_PROLOGUE_LOOP_INVARIANT \
	__CPROVER_assigns(i, self->codePos, __CPROVER_object_upto(self->registerUsage, sizeof(self->registerUsage)), self->instructionOffsets, \
		__CPROVER_object_whole(self->code), __CPROVER_object_whole(prog)) \
	__CPROVER_loop_invariant(i <= RXV_NPROG && self->codePos >= prologueSize + loopLoadSize && self->codePos <= prologueSize + loopLoadSize + 32 * (int)i) \
	__CPROVER_decreases(RXV_NPROG - i)
#endif
