/* Native replay for interpreter_main_loop_stays_inside_scratchpad_and_dataset (no verifier inputs needed: the counterexample is
   a loop-invariant state): a subclass of the real full-memory interpreted VM (built from /repo) overrides the two virtual
   dataset hooks and checks every address they receive - 64-byte aligned and inside [0, dataset size) - while the real
   execute() runs whole programs generated from pseudo-random seeds (v1 and v2).  The scratchpad accesses of the loop are
   checked with guard canaries around the scratchpad.  exit 1 on any violation. */
#include <cstdio>
#include <cstring>
#include <cstdint>
#include "randomx.h"
#include "dataset.hpp"
#include "vm_interpreted.hpp"
using namespace randomx;
static int fails = 0; static long reads = 0;
static const uint64_t DatasetBytes = (uint64_t)RANDOMX_DATASET_BASE_SIZE + RANDOMX_DATASET_EXTRA_SIZE;
struct Probe : public InterpretedVm<AlignedAllocator<CacheLineSize>, true> {
	explicit Probe(randomx_flags f) : InterpretedVm<AlignedAllocator<CacheLineSize>, true>(f) {}
	void check(const char* what, uint64_t a) { ++reads;
		if ((a % 64) != 0 || a + 64 > DatasetBytes) { if (fails < 5) printf("FAIL %s address %llu: %s\n", what, (unsigned long long)a, (a % 64) ? "not 64-byte aligned" : "outside the dataset"); ++fails; } }
	void datasetRead(uint64_t address, int_reg_t(&r)[RegistersCount]) override { check("dataset read", address); for (unsigned i = 0; i < RegistersCount; ++i) r[i] ^= address * (i + 1); }
	void datasetPrefetch(uint64_t address) override { check("dataset prefetch", address); }
};
int main() {
	static randomx_dataset ds; static uint8_t dummy[64]; ds.memory = dummy;          /* never dereferenced: both hooks are overridden */
	for (int v2 = 0; v2 < 2; ++v2) {
		Probe* vm = new Probe(v2 ? RANDOMX_FLAG_V2 : RANDOMX_FLAG_DEFAULT);
		vm->setDataset(&ds); vm->allocate();
		alignas(16) uint64_t seed[8];
		for (int s = 0; s < 6; ++s) { for (int i = 0; i < 8; ++i) seed[i] = 0x9e3779b97f4a7c15ull * (uint64_t)(s * 8 + i + 1) ^ (v2 ? ~0ull : 0); vm->initScratchpad(seed); vm->run(seed); }
		delete vm;
	}
	printf("CASES %ld\n", reads);
	return fails ? 1 : 0;
}
