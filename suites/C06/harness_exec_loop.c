#include "vmx.c"
uint8_t* rxv_sp; int rxv_store_count; __CPROVER_size_t rxv_store_off; uint64_t rxv_store_val;
NativeRegisterFile* g_nreg; unsigned g_reads, g_prefetches;
static uint8_t sp_obj[16];
void h_execute(void) { struct randomx_vm* vm; rxv_sp = sp_obj; InterpretedVm_execute(vm); __CPROVER_assert(0, "canary"); }
