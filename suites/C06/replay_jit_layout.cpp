/* Native replay for the C06 code-buffer layout obligations, against the real JitCompilerX86 (public interface only).
   The verifier's counterexample for these obligations is a loop-invariant state, not a program, so this replay searches a
   fixed adversarial family instead: for every opcode byte and a few operand choices, a program whose every slot is that
   instruction (256 slots v1, 384 slots v2, hard/soft AES, full and light), generated after the SuperscalarHash routine;
   exit 1 if any byte at or above the start of the SuperscalarHash routine changed (or the process faults). */
#include <cstdio>
#include <cstring>
#include <csignal>
#include <cstdlib>
#include <vector>
#include "randomx.h"
#include "common.hpp"
#include "program.hpp"
#include "superscalar_program.hpp"
#include "jit_compiler_x86.hpp"
using namespace randomx;
static void on_fault(int s) { printf("FAIL fault signal %d during code generation\n", s); fflush(stdout); _exit(1); }
int main() {
	signal(SIGSEGV, on_fault); signal(SIGBUS, on_fault);
	int cases = 0, fails = 0;
	const randomx_flags fl[4] = { RANDOMX_FLAG_DEFAULT, RANDOMX_FLAG_HARD_AES, RANDOMX_FLAG_V2, (randomx_flags)(RANDOMX_FLAG_V2 | RANDOMX_FLAG_HARD_AES) };
	for (int f = 0; f < 4; ++f) for (int light = 0; light < 2; ++light) {
		JitCompilerX86 jit; jit.setFlags(fl[f]); jit.enableWriting();
		size_t n = jit.getCodeSize();
		std::vector<uint8_t> s0(jit.getCode(), jit.getCode() + n);
		static SuperscalarProgramList progs; std::vector<uint64_t> rc;
		for (auto& p : progs) p.setSize(0);
		jit.generateSuperscalarHash(progs, rc);
		std::vector<uint8_t> s1(jit.getCode(), jit.getCode() + n);
		size_t ssh = 0; while (ssh < n && s0[ssh] == s1[ssh]) ++ssh;
		if (ssh == n) { printf("FAIL could not locate the SuperscalarHash routine\n"); return 2; }
		for (int op = 0; op < 256; ++op) for (int var = 0; var < 6; ++var) {
			static Program prog; ProgramConfiguration cfg; memset(&cfg, 0, sizeof cfg); memset(&prog, 0, sizeof prog);
			cfg.readReg0 = 0; cfg.readReg1 = 1; cfg.readReg2 = 2; cfg.readReg3 = 3;
			for (unsigned i = 0; i < Program::getSize(fl[f]); ++i) {
				Instruction& in = prog(i);
				in.opcode = op; in.dst = (var & 1) ? 4 : 5; in.src = (var & 2) ? 4 : ((var & 1) ? 4 : 5);
				in.mod = (var >= 4) ? 0xff : 0x0e; in.setImm32(0x80000001u);
			}
			if (light) jit.generateProgramLight(prog, cfg, 0xffffffc0u); else jit.generateProgram(prog, cfg);
			++cases;
			if (memcmp(jit.getCode() + ssh, s1.data() + ssh, n - ssh) != 0) {
				size_t k = ssh; while (jit.getCode()[k] == s1[k]) ++k;
				printf("FAIL flags=%d light=%d opcode=%d variant=%d: byte %zu of the code buffer (SuperscalarHash routine starts at %zu) was overwritten by program generation\n", (int)fl[f], light, op, var, k, ssh);
				++fails; goto next;
			}
		}
		next:;
	}
	printf("CASES %d\n", cases);
	return fails ? 1 : 0;
}
