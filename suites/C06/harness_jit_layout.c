#include "jit_sizes.h"
#include <stddef.h>
#include <stdint.h>
/* STUB: copies of static code blobs / constants into the code buffer: the destination range must be writable (inside the
   buffer).  The copied bytes are not modelled and sources (assembly symbols) are not read: the extraction recipe checks on
   every run that the generator never reads the code buffer back (only_uses rule), so its contents cannot influence
   codePos or any later destination. */
void* memcpy(void* dst, const void* src, size_t n) { __CPROVER_assert(n < 65536 && __CPROVER_w_ok(dst, n), "copy destination lies inside the code buffer"); return dst; }
#include "jg.c"
const uint8_t codePrefetchScratchpad[64];
void rxv_vec_clear(rxv_vector* v) { v->size = 0; }
int nondet_int(void); uint32_t nondet_u32(void);
static void setup(struct JitCompilerX86* jit) {
	jit->code = __CPROVER_allocate(CodeSize, 0);
	jit->vmFlags = (randomx_flags)nondet_int();
	jit->codePos = nondet_int();
}
void h_generate_program(void) {
	struct JitCompilerX86 jit; static Program prog; static ProgramConfiguration cfg;
	setup(&jit);
	cfg.readReg0 = nondet_u32() % 8; cfg.readReg1 = nondet_u32() % 8; cfg.readReg2 = nondet_u32() % 8; cfg.readReg3 = nondet_u32() % 8;
#ifdef LIGHT
	JitCompilerX86_generateProgramLight(&jit, &prog, &cfg, nondet_u32());
#else
	JitCompilerX86_generateProgram(&jit, &prog, &cfg);
#endif
	__CPROVER_assert(jit.codePos >= 0 && (size_t)jit.codePos <= RandomXCodeSize, "generated program ends below the SuperscalarHash routine (superScalarHashOffset)");
	__CPROVER_assert((size_t)jit.codePos <= (size_t)epilogueOffset, "generated program ends below the epilogue");
	__CPROVER_assert(prologueSize >= 48 && readDatasetV2Size <= readDatasetSize, "layout facts the generator relies on (eMask slot inside the prologue, v2 dataset read not longer than the advance)");
	__CPROVER_assert(0, "canary");
}
