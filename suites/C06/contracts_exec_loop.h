/* C06 / C02: the interpreter's main loop, InterpretedVm<Allocator, softAes>::execute (src/vm_interpreted.cpp, extracted), for all
   2048 iterations (loop contract), every register content, every configuration satisfying the postcondition of
   randomx_vm::initialize (readReg0..3 < 8, datasetOffset <= DatasetExtraSize - proved in suite C02):
     * every scratchpad access of the loop itself (8 + 8 + 8 loads/conversions, 8 + 4 stores per iteration) lies inside
       [scratchpad, scratchpad + 2 MiB): the accessors' contracts require it (base + extent model of contracts_mem.h);
     * the dataset line that is prefetched and the one that is read lie inside the dataset extent;
     * nothing but the VM object, its scratchpad and the local register file is written.
   Stand-ins with contracts (their own obligations are in C05 / C07 / C01 / C12): compileProgram, executeBytecode, datasetRead,
   datasetPrefetch, aesenc / aesdec, the little-endian accessors and the packed-int conversion. */
#ifndef RXV_CONTRACTS_EXEC_LOOP_H
#define RXV_CONTRACTS_EXEC_LOOP_H
#define RXV_STORE64_ANY_OBJECT 1
#include "contracts_mem.h"
#define RXV_DATASET_BYTES (2147483648ULL + 33554368ULL)     /* RANDOMX_DATASET_BASE_SIZE + RANDOMX_DATASET_EXTRA_SIZE (configuration.h) */
extern NativeRegisterFile* g_nreg; extern unsigned g_reads, g_prefetches;
rx_vec_i128 aesenc(rx_vec_i128 in, rx_vec_i128 key) __CPROVER_requires(1) __CPROVER_assigns() __CPROVER_ensures(1);
rx_vec_i128 aesdec(rx_vec_i128 in, rx_vec_i128 key) __CPROVER_requires(1) __CPROVER_assigns() __CPROVER_ensures(1);
/* 8 bytes of the scratchpad converted to two doubles (spec 4.6.2 step 3): arbitrary value, access must be inside the scratchpad */
__inline__ rx_vec_f128 rx_cvt_packed_int_vec_f128(const void* addr)
__CPROVER_requires(RXV_IN_SP((const uint8_t*)addr, 8)) __CPROVER_assigns() __CPROVER_ensures(1);
/* 16-byte store: into the scratchpad (must be inside), or into the VM's register file */
__inline__ void rx_store_vec_f128(double* mem_addr, rx_vec_f128 a)
__CPROVER_requires(__CPROVER_same_object(mem_addr, rxv_sp) ? RXV_IN_SP((uint8_t*)mem_addr, 16) : __CPROVER_w_ok(mem_addr, 16))
__CPROVER_assigns(!__CPROVER_same_object(mem_addr, rxv_sp): __CPROVER_object_upto(mem_addr, 16)) __CPROVER_ensures(1);

/* compileProgram: fills the bytecode array and binds the register file the bytecode operates on (contract: suites C05 / C07) */
void BytecodeMachine_compileProgram(struct randomx_vm* self, Program* program, InstructionByteCode* bytecode, NativeRegisterFile* regFile, randomx_flags flags)
__CPROVER_requires(bytecode == self->bytecode && program == &self->program)
__CPROVER_assigns(__CPROVER_object_upto(self->bytecode, sizeof(self->bytecode)), self->nreg, __CPROVER_object_upto(self->registerUsage, sizeof(self->registerUsage)), g_nreg)
__CPROVER_ensures(self->nreg == regFile && g_nreg == regFile);
/* executeBytecode: runs the program on the bound register file and the scratchpad (each executor: suite C05) */
void BytecodeMachine_executeBytecode(InstructionByteCode* bytecode, uint8_t* scratchpad, ProgramConfiguration* config, randomx_flags flags)
__CPROVER_requires(scratchpad == rxv_sp && __CPROVER_rw_ok(g_nreg, sizeof(*g_nreg)))
__CPROVER_assigns(__CPROVER_object_upto(g_nreg->r, sizeof(g_nreg->r)), __CPROVER_object_upto(g_nreg->f, sizeof(g_nreg->f)), __CPROVER_object_upto(g_nreg->e, sizeof(g_nreg->e)),
	rxv_store_count, rxv_store_off, rxv_store_val)
__CPROVER_ensures(1);
void InterpretedVm_datasetPrefetch(struct randomx_vm* self, uint64_t address)
__CPROVER_requires(address % 64 == 0 && address + 64 <= RXV_DATASET_BYTES) __CPROVER_assigns(g_prefetches) __CPROVER_ensures(g_prefetches == __CPROVER_old(g_prefetches) + 1);
void InterpretedVm_datasetRead(struct randomx_vm* self, uint64_t address, int_reg_t* r)
__CPROVER_requires(address % 64 == 0 && address + 64 <= RXV_DATASET_BYTES && __CPROVER_rw_ok(r, 64))
__CPROVER_assigns(__CPROVER_object_upto(r, 64), g_reads) __CPROVER_ensures(g_reads == __CPROVER_old(g_reads) + 1);

void InterpretedVm_execute(struct randomx_vm* self)
__CPROVER_requires(__CPROVER_is_fresh(self, sizeof(*self)) && self->scratchpad == rxv_sp && g_reads == 0 && g_prefetches == 0)
__CPROVER_requires(self->config.readReg0 < 8 && self->config.readReg1 < 8 && self->config.readReg2 < 8 && self->config.readReg3 < 8)
__CPROVER_requires(self->datasetOffset % 64 == 0 && self->datasetOffset <= 33554368ULL)
__CPROVER_assigns(__CPROVER_object_whole(self), g_nreg, g_reads, g_prefetches, rxv_store_count, rxv_store_off, rxv_store_val)
/* one dataset line is read and one is prefetched per iteration */
__CPROVER_ensures(g_reads == 2048 && g_prefetches == 2048);
#define RXV_EXEC_LOOP_INVARIANT \
	__CPROVER_assigns(ic, spAddr0, spAddr1, __CPROVER_object_whole(&nreg), self->mem.mx, self->mem.ma, g_reads, g_prefetches, rxv_store_count, rxv_store_off, rxv_store_val) \
	__CPROVER_loop_invariant(ic <= 2048 && g_reads == ic && g_prefetches == ic && g_nreg == &nreg && self->nreg == &nreg) \
	__CPROVER_decreases(2048 - ic)
#endif
