import importlib.util, os, sys
sys.path.insert(0, os.path.join(os.path.dirname(os.path.abspath(__file__)), "..", "common"))
import cxx_specs as XS

PROPERTY = "C06"
LEVEL = "proof"
EXPLANATION = ("Proof of buffer discipline at every site a contract can reach: every interpreter scratchpad access goes through an address masked into [0, 2 MiB - 8]; dataset offset + masked address stays below the dataset size and the light-mode item number below the item count; for every program the JIT's codePos stays inside the program area below the SuperscalarHash routine (loop contract over the instruction loop with the emitter's at-most-32-bytes contract, blob sizes measured from the assembled .S on every run); the emitters write only their 32-byte slot; the commitment API reads exactly inputSize + 32 bytes and writes 32.")
TRUSTED = ['memory accesses performed BY the generated / hand-written machine code at run time (the masks and offsets it is given are checked, their execution is not)', 'blob sizes are measured from the assembled current jit_compiler_x86_static.S (nm), not proved', 'harness memcpy stub checks destinations only; the extraction verifies on every run that the generator never reads the code buffer back']
ASSUMPTIONS = []
NOT_DECIDED = ['superscalar code generation (generateSuperscalarHash) layout', 'calculate_hash input/output extents other than the commitment API (covered only through the hash driver contract of C02)']
INC = ["@suites/common"]


from imports import imported


LAYOUT_FILES = [XS.JIT_SIZES, {"cxx": XS.JIT_LAYOUT, "out": "jg.c", "header": True,
                               "loops": [{"function": "JitCompilerX86_generateProgramPrologue", "expect_loops": 2, "loops": {"1": "RXV_PROLOGUE_LOOP_INVARIANT"}}]},
                "harness_jit_layout.c"]


def layout(name, light):
    return {"name": name, "files": LAYOUT_FILES, "incdirs": INC, "defines": ['RXV_CONTRACTS_H="contracts_jit_layout.h"'] + (["LIGHT=1"] if light else []),
            "entry": "h_generate_program", "cbmc_flags": ["--arrays-uf-always"], "replace": ["JitCompilerX86_generateCode"], "loop_contracts": True,
            "unwindset": ["JitCompilerX86_generateProgramPrologue.0:9", "memcpy.0:9"],
            "checks": ["--bounds-check", "--pointer-check", "--div-by-zero-check", "--undefined-shift-check", "--signed-overflow-check"],
            "expect_classes": ["assertion", "loop_invariant_step", "precondition"], "expect_min": 10, "timeout": 900,
            "replay": {"prog": "replay_jit_layout.cpp", "sources": "lib", "no_args": True}}


EXEC_LOOP = {"name": "interpreter_main_loop_stays_inside_scratchpad_and_dataset",
             "files": [{"cxx": XS.VM_EXECUTE, "out": "vmx.c", "header": True,
                        "loops": [{"function": "InterpretedVm_execute", "expect_loops": 14, "loops": {"1": "RXV_EXEC_LOOP_INVARIANT"}}]}, "harness_exec_loop.c"],
             "incdirs": INC, "defines": ['RXV_CONTRACTS_H="contracts_exec_loop.h"', "softAes=1"], "entry": "h_execute", "enforce": "InterpretedVm_execute",
             "replace": ["aesenc", "aesdec", "rx_cvt_packed_int_vec_f128", "rx_store_vec_f128", "load64", "store64", "BytecodeMachine_compileProgram",
                         "BytecodeMachine_executeBytecode", "InterpretedVm_datasetPrefetch", "InterpretedVm_datasetRead"],
             "loop_contracts": True, # every loop of execute except the main loop (id 11: its back edge follows those of the 10 loops nested in it) is unrolled before dfcc
             "pre_unwindset": ["InterpretedVm_execute.%d:9" % k for k in list(range(0, 11)) + [12, 13, 14]], "unwind": 24, "cbmc_flags": ["--object-bits", "12"],
             "checks": ["--bounds-check", "--pointer-check", "--div-by-zero-check", "--undefined-shift-check", "--signed-overflow-check"],
             "expect_classes": ["precondition", "loop_invariant_step", "postcondition"], "expect_min": 30, "timeout": 1800, "mem_gb": 30, "weight": 6,
             "replay": {"prog": "replay_exec_loop.cpp", "sources": "lib", "flags": ["-O1"], "no_args": True}}
OBLIGATIONS = [
    EXEC_LOOP,
    layout("jit_program_fits_below_superscalar_area", 0),
    layout("jit_light_program_fits_below_superscalar_area", 1),
    # scratchpad accesses of the interpreter: every load/store address lies in [0, 2 MiB - 8] (accessor preconditions)
    imported("C05", "exec_IADD_M", "interp_scratchpad_read_in_bounds"),
    imported("C05", "exec_ISTORE", "interp_scratchpad_store_in_bounds"),
    imported("C05", "exec_FDIV_M", "interp_scratchpad_fp_read_in_bounds"),
    # dataset / cache extents
    imported("C02", "vm_initialize_equals_spec_4_5", "dataset_offset_plus_address_inside_dataset"),
    imported("C01", "dataset_read_full", "dataset_read_inside_dataset"),
    imported("C01", "dataset_read_light", "light_item_number_inside_dataset"),
    # emitters: at most 32 bytes, nothing outside the slot
    imported("C04", "jit_ISTORE", "emitter_ISTORE_at_most_32_bytes"),
    imported("C04", "jit_IXOR_R", "emitter_IXOR_R_at_most_32_bytes"),
    # API extents: commitment reads exactly inputSize + 32 bytes and writes 32
    imported("C11", "commitment_is_blake2b256_of_input_then_hash", "commitment_reads_and_writes_exact_extents"),
]
