/* STUB: memcpy / memset for symbolic lengths (CBMC's built-in byte loop blows up: 128-byte destination with a
   symbolic length did not finish in 300 s).  Sound over-approximation: bounds are asserted, the destination range is
   havocked, and the destination byte at object offset rxv_mc_off (ghost, chosen by the proof, arbitrary) keeps its
   precise value.  Copies of at most 8 bytes (the load/store helpers of endian.h) are precise.
   Every proof holds for an arbitrary tracked offset, i.e. for every byte. */
#include <stddef.h>
size_t rxv_mc_off, rxv_mc_off2;   /* ghost: offsets (inside the destination object) of the two bytes whose content is tracked precisely */

void* memcpy(void* dst, const void* src, size_t n) {
	__CPROVER_assert(n == 0 || (__CPROVER_w_ok(dst, n) && __CPROVER_r_ok(src, n)), "memcpy: source and destination ranges are valid");
	if (n <= 8) {
		for (size_t i = 0; i < n; i++) ((unsigned char*)dst)[i] = ((const unsigned char*)src)[i];
		return dst;
	}
	size_t base = (size_t)__CPROVER_POINTER_OFFSET(dst);
	_Bool hit = base <= rxv_mc_off && rxv_mc_off - base < n;
	_Bool hit2 = base <= rxv_mc_off2 && rxv_mc_off2 - base < n;
	unsigned char keep = 0, keep2 = 0;
	if (hit) keep = ((const unsigned char*)src)[rxv_mc_off - base];
	if (hit2) keep2 = ((const unsigned char*)src)[rxv_mc_off2 - base];
	__CPROVER_havoc_slice(dst, n);
	if (hit) ((unsigned char*)dst)[rxv_mc_off - base] = keep;
	if (hit2) ((unsigned char*)dst)[rxv_mc_off2 - base] = keep2;
	return dst;
}

void* memset(void* dst, int c, size_t n) {
	__CPROVER_assert(n == 0 || __CPROVER_w_ok(dst, n), "memset: destination range is valid");
	if (n <= 16) {   /* small fills (parameter-block fields): precise */
		for (size_t i = 0; i < n; i++) ((unsigned char*)dst)[i] = (unsigned char)c;
		return dst;
	}
	if (n > 0) {
		size_t base = (size_t)__CPROVER_POINTER_OFFSET(dst);
		_Bool hit = base <= rxv_mc_off && rxv_mc_off - base < n;
		_Bool hit2 = base <= rxv_mc_off2 && rxv_mc_off2 - base < n;
		__CPROVER_havoc_slice(dst, n);
		if (hit) ((unsigned char*)dst)[rxv_mc_off - base] = (unsigned char)c;
		if (hit2) ((unsigned char*)dst)[rxv_mc_off2 - base] = (unsigned char)c;
	}
	return dst;
}
