/* STUB: memcpy / memset for symbolic lengths of at most 128 bytes (every copy in src/blake2/blake2b.c moves at most one
   block).  Same over-approximation as memstub.c - bounds asserted, destination havocked, the destination bytes at object
   offsets rxv_mc_off / rxv_mc_off2 (ghost, arbitrary) keep their precise value - but the havoc is 128 guarded single-byte
   writes instead of a symbolic-length slice havoc, which CBMC handles far better. */
#include <stddef.h>
size_t rxv_mc_off, rxv_mc_off2;
unsigned char nondet_uchar(void);
/* loop-free on purpose (no unwinding interplay with loop contracts of the code under proof) */
#define RXV_S8(M, b) M((b) + 0) M((b) + 1) M((b) + 2) M((b) + 3) M((b) + 4) M((b) + 5) M((b) + 6) M((b) + 7)
#define RXV_S128(M) RXV_S8(M, 0) RXV_S8(M, 8) RXV_S8(M, 16) RXV_S8(M, 24) RXV_S8(M, 32) RXV_S8(M, 40) RXV_S8(M, 48) RXV_S8(M, 56) \
	RXV_S8(M, 64) RXV_S8(M, 72) RXV_S8(M, 80) RXV_S8(M, 88) RXV_S8(M, 96) RXV_S8(M, 104) RXV_S8(M, 112) RXV_S8(M, 120)
#define RXV_HAVOC1(k) if ((size_t)(k) < n) d[k] = nondet_uchar();
#define RXV_COPY1(k) if ((size_t)(k) < n) d[k] = s[k];
#define RXV_FILL1(k) if ((size_t)(k) < n) d[k] = (unsigned char)c;
static void rxv_havoc128(unsigned char* d, size_t n) { RXV_S128(RXV_HAVOC1) }

void* memcpy(void* dst, const void* src, size_t n) {
	__CPROVER_assert(n <= 128, "memcpy: at most one block");
	__CPROVER_assert(n == 0 || (__CPROVER_w_ok(dst, n) && __CPROVER_r_ok(src, n)), "memcpy: source and destination ranges are valid");
	if (n <= 8) {
		unsigned char* d = (unsigned char*)dst; const unsigned char* s = (const unsigned char*)src;
		RXV_S8(RXV_COPY1, 0)
		return dst;
	}
	size_t base = (size_t)__CPROVER_POINTER_OFFSET(dst);
	_Bool hit = base <= rxv_mc_off && rxv_mc_off - base < n;
	_Bool hit2 = base <= rxv_mc_off2 && rxv_mc_off2 - base < n;
	unsigned char keep = 0, keep2 = 0;
	if (hit) keep = ((const unsigned char*)src)[rxv_mc_off - base];
	if (hit2) keep2 = ((const unsigned char*)src)[rxv_mc_off2 - base];
	rxv_havoc128((unsigned char*)dst, n);
	if (hit) ((unsigned char*)dst)[rxv_mc_off - base] = keep;
	if (hit2) ((unsigned char*)dst)[rxv_mc_off2 - base] = keep2;
	return dst;
}

void* memset(void* dst, int c, size_t n) {
	__CPROVER_assert(n <= 128, "memset: at most one block");
	__CPROVER_assert(n == 0 || __CPROVER_w_ok(dst, n), "memset: destination range is valid");
	unsigned char* d = (unsigned char*)dst;
	RXV_S128(RXV_FILL1)
	return dst;
}
