#include "rxv_intrin_model.h"
