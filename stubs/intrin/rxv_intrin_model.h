/* TRUSTED: C models of the SSE2/SSSE3/AVX2 intrinsics used by src/argon2_ssse3.c, src/argon2_avx2.c and
   src/blake2/blamka-round-{ssse3,avx2}.h, written from the Intel Intrinsics Guide operation pseudo-code.
   Vectors are structs of 64-bit lanes (lane 0 = least significant).  Only the listed intrinsics exist: any other
   intrinsic makes the translation unit fail to compile (tool error, never a verdict). */
#ifndef RXV_INTRIN_MODEL_H
#define RXV_INTRIN_MODEL_H
#include <stdint.h>
#ifndef RXV_MUL32
#define RXV_MUL32(a, b) ((uint64_t)(uint32_t)(a) * (uint64_t)(uint32_t)(b))
#endif
typedef struct { uint64_t q[2]; } __m128i;
typedef struct { uint64_t q[4]; } __m256i;
#define _MM_SHUFFLE(z, y, x, w) (((z) << 6) | ((y) << 4) | ((x) << 2) | (w))
static inline uint8_t rxv_byte(const uint64_t* q, unsigned i) { return (uint8_t)(q[i >> 3] >> (8 * (i & 7))); }
static inline uint32_t rxv_dword(const uint64_t* q, unsigned i) { return (uint32_t)(q[i >> 1] >> (32 * (i & 1))); }
static inline void rxv_setbyte(uint64_t* q, unsigned i, uint8_t b) { q[i >> 3] |= (uint64_t)b << (8 * (i & 7)); }
static inline void rxv_setdword(uint64_t* q, unsigned i, uint32_t d) { q[i >> 1] |= (uint64_t)d << (32 * (i & 1)); }
/* ---- 128 bit ---- */
static inline __m128i _mm_xor_si128(__m128i a, __m128i b) { __m128i r; r.q[0] = a.q[0] ^ b.q[0]; r.q[1] = a.q[1] ^ b.q[1]; return r; }
static inline __m128i _mm_add_epi64(__m128i a, __m128i b) { __m128i r; r.q[0] = a.q[0] + b.q[0]; r.q[1] = a.q[1] + b.q[1]; return r; }
static inline __m128i _mm_mul_epu32(__m128i a, __m128i b) { __m128i r; r.q[0] = RXV_MUL32(a.q[0], b.q[0]); r.q[1] = RXV_MUL32(a.q[1], b.q[1]); return r; }
static inline __m128i _mm_loadu_si128(const __m128i* p) { return *p; }
static inline void _mm_storeu_si128(__m128i* p, __m128i a) { *p = a; }
static inline __m128i _mm_slli_epi64(__m128i a, int n) { __m128i r; r.q[0] = (n > 63 || n < 0) ? 0 : a.q[0] << n; r.q[1] = (n > 63 || n < 0) ? 0 : a.q[1] << n; return r; }
static inline __m128i _mm_srli_epi64(__m128i a, int n) { __m128i r; r.q[0] = (n > 63 || n < 0) ? 0 : a.q[0] >> n; r.q[1] = (n > 63 || n < 0) ? 0 : a.q[1] >> n; return r; }
static inline __m128i _mm_shuffle_epi32(__m128i a, int imm) { __m128i r = { { 0, 0 } };
	for (unsigned i = 0; i < 4; ++i) rxv_setdword(r.q, i, rxv_dword(a.q, ((unsigned)imm >> (2 * i)) & 3)); return r; }
static inline __m128i _mm_shuffle_epi8(__m128i a, __m128i m) { __m128i r = { { 0, 0 } };
	for (unsigned i = 0; i < 16; ++i) { uint8_t s = rxv_byte(m.q, i); rxv_setbyte(r.q, i, (s & 0x80) ? 0 : rxv_byte(a.q, s & 15)); } return r; }
/* concatenate a (high) : b (low), shift right by n bytes, keep the low 16 bytes */
static inline __m128i _mm_alignr_epi8(__m128i a, __m128i b, int n) { uint64_t t[4] = { b.q[0], b.q[1], a.q[0], a.q[1] }; __m128i r = { { 0, 0 } };
	for (unsigned i = 0; i < 16; ++i) { unsigned j = i + (unsigned)n; rxv_setbyte(r.q, i, j < 32 ? rxv_byte(t, j) : 0); } return r; }
static inline __m128i _mm_setr_epi8(char b0, char b1, char b2, char b3, char b4, char b5, char b6, char b7,
	char b8, char b9, char b10, char b11, char b12, char b13, char b14, char b15) {
	const char b[16] = { b0, b1, b2, b3, b4, b5, b6, b7, b8, b9, b10, b11, b12, b13, b14, b15 }; __m128i r = { { 0, 0 } };
	for (unsigned i = 0; i < 16; ++i) rxv_setbyte(r.q, i, (uint8_t)b[i]); return r; }
/* ---- 256 bit ---- */
static inline __m256i _mm256_xor_si256(__m256i a, __m256i b) { __m256i r; for (int i = 0; i < 4; ++i) r.q[i] = a.q[i] ^ b.q[i]; return r; }
static inline __m256i _mm256_add_epi64(__m256i a, __m256i b) { __m256i r; for (int i = 0; i < 4; ++i) r.q[i] = a.q[i] + b.q[i]; return r; }
static inline __m256i _mm256_mul_epu32(__m256i a, __m256i b) { __m256i r; for (int i = 0; i < 4; ++i) r.q[i] = RXV_MUL32(a.q[i], b.q[i]); return r; }
static inline __m256i _mm256_loadu_si256(const __m256i* p) { return *p; }
static inline void _mm256_storeu_si256(__m256i* p, __m256i a) { *p = a; }
static inline __m256i _mm256_srli_epi64(__m256i a, int n) { __m256i r; for (int i = 0; i < 4; ++i) r.q[i] = (n > 63 || n < 0) ? 0 : a.q[i] >> n; return r; }
/* in each 128-bit lane */
static inline __m256i _mm256_shuffle_epi32(__m256i a, int imm) { __m256i r = { { 0, 0, 0, 0 } };
	for (unsigned l = 0; l < 2; ++l) for (unsigned i = 0; i < 4; ++i) rxv_setdword(r.q + 2 * l, i, rxv_dword(a.q + 2 * l, ((unsigned)imm >> (2 * i)) & 3)); return r; }
static inline __m256i _mm256_shuffle_epi8(__m256i a, __m256i m) { __m256i r = { { 0, 0, 0, 0 } };
	for (unsigned l = 0; l < 2; ++l) for (unsigned i = 0; i < 16; ++i) { uint8_t s = rxv_byte(m.q + 2 * l, i); rxv_setbyte(r.q + 2 * l, i, (s & 0x80) ? 0 : rxv_byte(a.q + 2 * l, s & 15)); } return r; }
static inline __m256i _mm256_permute4x64_epi64(__m256i a, int imm) { __m256i r; for (unsigned i = 0; i < 4; ++i) r.q[i] = a.q[((unsigned)imm >> (2 * i)) & 3]; return r; }
static inline __m256i _mm256_blend_epi32(__m256i a, __m256i b, int imm) { __m256i r = { { 0, 0, 0, 0 } };
	for (unsigned i = 0; i < 8; ++i) rxv_setdword(r.q, i, (((unsigned)imm >> i) & 1) ? rxv_dword(b.q, i) : rxv_dword(a.q, i)); return r; }
static inline __m256i _mm256_setr_epi8(char b0, char b1, char b2, char b3, char b4, char b5, char b6, char b7,
	char b8, char b9, char b10, char b11, char b12, char b13, char b14, char b15, char b16, char b17, char b18, char b19, char b20, char b21, char b22, char b23,
	char b24, char b25, char b26, char b27, char b28, char b29, char b30, char b31) {
	const char b[32] = { b0, b1, b2, b3, b4, b5, b6, b7, b8, b9, b10, b11, b12, b13, b14, b15, b16, b17, b18, b19, b20, b21, b22, b23, b24, b25, b26, b27, b28, b29, b30, b31 };
	__m256i r = { { 0, 0, 0, 0 } }; for (unsigned i = 0; i < 32; ++i) rxv_setbyte(r.q, i, (uint8_t)b[i]); return r; }
#endif
