/* STUB: mmap / mprotect / munmap recording the requested protections in ghost variables (see contracts_vmem.h).
   mmap fails nondeterministically (returns MAP_FAILED), otherwise returns a fresh object of the requested size. */
#include <stddef.h>
#include <sys/types.h>
#include <sys/mman.h>
int rxv_prot, rxv_wx_requests, rxv_maps, rxv_unmaps, rxv_map_fail;
size_t rxv_mapped_bytes, rxv_unmapped_bytes;
_Bool nondet_bool(void);
void* mmap(void* addr, size_t len, int prot, int flags, int fd, off_t off) {
	if ((prot & PROT_WRITE) && (prot & PROT_EXEC)) rxv_wx_requests++;
	if (nondet_bool()) return MAP_FAILED;
	void* p = __CPROVER_allocate(len, 0);
	rxv_prot = prot; rxv_maps++; rxv_mapped_bytes += len;
	return p;
}
int mprotect(void* addr, size_t len, int prot) {
	if ((prot & PROT_WRITE) && (prot & PROT_EXEC)) rxv_wx_requests++;
	rxv_prot = prot;
	return nondet_bool() ? -1 : 0;
}
int munmap(void* addr, size_t len) { rxv_unmaps++; rxv_unmapped_bytes += len; return 0; }
