#!/bin/bash
# usage: killmatch.sh <substring>  -- kills cbmc / run.py processes whose command line contains the substring (not this script)
ps -eo pid,args | grep -E "cbmc|rxv/run.py" | grep -- "$1" | grep -v killmatch | grep -v grep | awk '{print $1}' | xargs -r kill
