#!/bin/bash
# usage: confirm_seed.sh <seed-name> <worktree>   (worktree has demo/patch.diff, demo/demo.cpp, demo/build.sh)
# Confirms independently: patch applies to the pinned commit, library builds, all 105 tests pass with the patch,
# the demo fails with the patch and passes without it.  On success copies the deliverables to /verif/seeded/<name>/.
set -u
name=$1; wt=$2
cd "$wt" || exit 2
log=/tmp/confirm_$name.log; : > $log
cp -r demo /tmp/demo_$name.bak 2>/dev/null
git checkout -- src >>$log 2>&1
git apply --check demo/patch.diff >>$log 2>&1 || { echo "$name: patch does not apply" | tee -a $log; exit 1; }
build() { nice cmake -G Ninja -B _build -DCMAKE_BUILD_TYPE=RelWithDebInfo >>$log 2>&1 && nice cmake --build _build -j6 >>$log 2>&1; }
# 1. unpatched: demo passes
build || { echo "$name: clean build failed" | tee -a $log; exit 1; }
bash demo/build.sh "$wt" >>$log 2>&1; rc_clean=$?
# 2. patched: tests pass, demo fails
git apply demo/patch.diff
build || { echo "$name: patched build failed" | tee -a $log; exit 1; }
./_build/randomx-tests > /tmp/tests_$name.out 2>&1; rc_tests=$?
npass=$(grep -c PASSED /tmp/tests_$name.out)
bash demo/build.sh "$wt" > /tmp/demo_$name.out 2>&1; rc_patched=$?
cat /tmp/demo_$name.out >> $log
echo "$name: clean_demo_rc=$rc_clean tests_rc=$rc_tests passed_lines=$npass patched_demo_rc=$rc_patched" | tee -a $log
if [ $rc_clean -eq 0 ] && [ $rc_tests -eq 0 ] && [ $rc_patched -ne 0 ]; then
  mkdir -p /verif/seeded/$name
  cp demo/patch.diff demo/demo.cpp demo/build.sh /verif/seeded/$name/ 2>/dev/null
  cp demo/NOTES.md /verif/seeded/$name/ 2>/dev/null
  tail -5 /tmp/demo_$name.out > /verif/seeded/$name/demo_output_patched.txt
  echo "$name: CONFIRMED"
  exit 0
fi
echo "$name: NOT confirmed"; exit 1
