#!/bin/bash
# usage: seedtest.sh <seed> <property> [only-regex] [tier]
s=$1; p=$2; only=$3; tier=${4:-quick}
cd /verif
git -C /repo apply /verif/seeded/$s/patch.diff || { echo "$s: patch does not apply"; exit 3; }
if [ -n "$only" ]; then python3 rxv/run.py $p --tier $tier --no-evidence --only "$only" 2>&1 | grep -E "^VIOLATION|^UNDECIDED|tier=" | cut -c1-300; else python3 rxv/run.py $p --tier $tier --no-evidence 2>&1 | grep -E "^VIOLATION|^UNDECIDED|tier=" | cut -c1-300; fi
git -C /repo checkout -- .
