#!/bin/bash
# usage: mut.sh <file rel to /repo> <sed-expr> <property> [only-regex]   -- applies a one-line mutation to /repo, runs the check, reverts
f=$1; e=$2; p=$3; only=$4
cd /repo && cp $f /tmp/mut_backup && sed -i "$e" $f
if cmp -s $f /tmp/mut_backup; then echo "MUTATION DID NOT APPLY"; exit 3; fi
git -C /repo diff --stat | tail -1
cd /verif && if [ -n "$only" ]; then python3 rxv/run.py $p --no-evidence --only "$only" 2>&1 | grep -E "VIOLATION|UNDECIDED|tier=" ; else python3 rxv/run.py $p --no-evidence 2>&1 | grep -E "VIOLATION|UNDECIDED|tier="; fi
git -C /repo checkout -- $f
