#!/usr/bin/env python3
"""setup-time sanity check: tools present, suites load, MANIFEST validates against the schema"""
import importlib.util, json, os, shutil, sys
V = os.path.dirname(os.path.dirname(os.path.abspath(__file__)))
for t in ("cbmc", "goto-cc", "goto-instrument", "gcc", "g++"):
    if not shutil.which(t):
        sys.exit("missing tool " + t)
man = json.load(open(os.path.join(V, "MANIFEST.json")))
try:
    import jsonschema
    jsonschema.validate(man, json.load(open("/root/.vp/MANIFEST.schema.json")))
except ImportError:
    pass
except FileNotFoundError:
    pass
for c in man["checks"]:
    sp = os.path.join(V, "suites", c["property_id"], "suite.py")
    spec = importlib.util.spec_from_file_location("s", sp)
    m = importlib.util.module_from_spec(spec)
    spec.loader.exec_module(m)
    assert m.OBLIGATIONS, c["property_id"]
print("selfcheck ok:", len(man["checks"]), "checks")
