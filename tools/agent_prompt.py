#!/usr/bin/env python3
"""Print the prompt given to an independent sub-agent that seeds a property-breaking change.
Only the property text and the scratch worktree path are included (nothing from /verif)."""
import json, sys
pid = sys.argv[1]
wt = sys.argv[2] if len(sys.argv) > 2 else "/tmp/wt_" + pid
for l in open('/verif/properties.jsonl'):
    p = json.loads(l)
    if p['id'] == pid:
        break
else:
    sys.exit("no such property")
print(f"""You are helping to evaluate a verification tool for the RandomX proof-of-work library (tevador/RandomX, C/C++).
You have your own scratch git worktree of the library at {wt} (a checkout of the pinned commit). Work ONLY inside {wt}
(never touch /repo or /verif, and do not read /verif). There is no network.

Build and test there with:
  cd {wt} && cmake -G Ninja -B _build -DCMAKE_BUILD_TYPE=RelWithDebInfo >/dev/null && cmake --build _build -j4 >/dev/null && ./_build/randomx-tests
(the test program prints 105 numbered tests, each 'PASSED', and exits 0).

THE PROPERTY (a semantic property the library is supposed to satisfy):
  id: {p['id']}
  title: {p['title']}
  statement: {p['statement']}
  quantifier: {p['quantifier']['text']}
  why the existing tests cannot settle it: {p['why_tests_cant']}
  relevant files: {', '.join(p['anchors']['files'])}

YOUR TASK: make ONE small, realistic source change to the library under {wt}/src (the kind of slip a maintainer could make in a
refactoring or optimisation: an off-by-one, a wrong mask/constant, a swapped operand, a dropped special case, a stale cached value,
a missing reset ...) that BREAKS this property, while the library still compiles and ALL 105 existing tests still pass.
The change must need something specific to manifest - an unusual input, a particular instruction word / operand combination /
length / range split / sequence of API calls, or two cooperating sites that each look fine alone - not something that ordinary
use (or the existing tests) would expose at once. Prefer a change in the portable C/C++ code (not in hand-written assembly .S/.inc files).
Do not edit anything under src/tests.

Then write a DEMONSTRATION: a small standalone C++ (or C) program {wt}/demo/demo.cpp, linked against the library built in the worktree
(e.g. g++ -O1 -I{wt}/src demo/demo.cpp {wt}/_build/librandomx.a -lpthread -o demo/demo), that exits 0 on the unmodified library
and exits non-zero (printing what went wrong) on the modified one. It may include internal headers from src/ and may use
-Dprivate=public -Dprotected=public if it needs internals. Verify both: build the unmodified tree (git stash or a second build dir),
run the demo -> passes; apply your change, rebuild, run ./_build/randomx-tests -> all pass; run the demo -> fails.

Deliverables (all inside {wt}):
  {wt}/demo/patch.diff   - `git diff -- src` of your change (must apply with `git apply` to the pinned commit)
  {wt}/demo/demo.cpp     - the demonstration
  {wt}/demo/build.sh     - the exact commands that build and run the demonstration given a library tree path as $1
  {wt}/demo/NOTES.md     - 5-10 lines: what you changed, why it breaks the property, what specific circumstance it needs to manifest,
                           and the observed outputs (tests pass, demo passes before / fails after).
Leave the worktree with your change APPLIED. Finish with a short report of the same facts. Keep the total time reasonable (aim for
under 40 minutes); if your first idea is caught by the tests, try another.""")
