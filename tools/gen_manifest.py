#!/usr/bin/env python3
"""Generates MANIFEST.json from suites/*/suite.py (MANIFEST_* fields) so that it stays valid and current."""
import importlib.util, json, os, sys
V = os.path.dirname(os.path.dirname(os.path.abspath(__file__)))
props = [json.loads(l) for l in open(os.path.join(V, "properties.jsonl"))]
checks, na = [], []
NA_REASONS = json.load(open(os.path.join(V, "tools", "not_applicable.json")))
for p in props:
    pid = p["id"]
    sp = os.path.join(V, "suites", pid, "suite.py")
    if not os.path.exists(sp) or pid in NA_REASONS and NA_REASONS[pid].get("force"):
        na.append({"property_id": pid, "reason": NA_REASONS.get(pid, {}).get("reason", "no contract-based check built yet (see DESIGN.md)")})
        continue
    spec = importlib.util.spec_from_file_location("s", sp)
    m = importlib.util.module_from_spec(spec)
    spec.loader.exec_module(m)
    level = getattr(m, "LEVEL", "proof")
    checks.append({
        "property_id": pid,
        "quick_cmd": "python3 rxv/run.py %s --tier quick" % pid,
        "thorough_cmd": "python3 rxv/run.py %s --tier thorough" % pid,
        "evidence_file": "/verif/evidence/%s.json" % pid,
        "replay_cmd_template": "python3 rxv/run.py %s --replay {path}" % pid,
        "engine": "rxv",
        "level_claimed": {"category": level, "text": getattr(m, "LEVEL_TEXT", getattr(m, "EXPLANATION", "")), "design_ref": "DESIGN.md section 4, " + pid},
        "level_note": "; ".join(list(getattr(m, "TRUSTED", [])) + list(getattr(m, "ASSUMPTIONS", [])) + ["not decided: " + x for x in getattr(m, "NOT_DECIDED", [])]),
        "technique": getattr(m, "TECHNIQUE", "CBMC function contracts enforced with goto-instrument --dfcc on the real (C) or per-run extracted (C++) function text"),
    })
man = {
    "version": 1,
    "setup_cmd": "python3 -m compileall -q rxv suites tools && python3 tools/selfcheck.py",
    "hooks": {"guard": "RANDOMX_VERIF", "enable": "none needed: contracts arrive by -include / per-run extraction; no guarded code exists in /repo",
              "baseline_off_cmd": "cmake -G Ninja -S /repo -B /repo/_build -DCMAKE_BUILD_TYPE=RelWithDebInfo && cmake --build /repo/_build && /repo/_build/randomx-tests",
              "source_commits": [], "add_only": True},
    "engines": [{"name": "rxv", "path": "rxv/run.py", "serves_properties": [c["property_id"] for c in checks],
                 "kind_free_text": "driver: per-run C++->C extraction (rxv/cxx2c.py), loop-contract weaving (rxv/weave.py), goto-cc, goto-instrument --dfcc (enforce/replace/apply-loop-contracts), cbmc with a pinned back end per obligation, native replay of counterexamples against /repo"}],
    "checks": checks,
    "not_applicable": na,
    "notes": "Exit codes: 0 discharged, 1 VIOLATION, 2 undecided (tool error/timeout/extraction break; never reported as violation). See DESIGN.md.",
}
json.dump(man, open(os.path.join(V, "MANIFEST.json"), "w"), indent=1)
print("checks:", [c["property_id"] for c in checks], "n/a:", [x["property_id"] for x in na])
